import DroopProofs.LowerRun
import DroopProofs.RunMpls

/-! # wigm with `defeat_batch=zero`: the zero batch, and with it every configuration of wigm at run level

The zero batch marks every zero-vote hopeful defeated (when that leaves enough candidates) and then transfers their ballots one
candidate at a time. The invariant of the sequence: the candidates still to be transferred are "just defeated" — out of scope,
their tallies still equal to the value of the ballots standing with them. -/
namespace Droop
variable {α : Type} [CommRing α] [LinearOrder α] [IsStrictOrderedRing α] (A : Arith α)

theorem voteOf_setVote_ne (s : St α) (cid d : Nat) (v : α) (hne : d ≠ cid) : (s.setVote cid v).voteOf d = s.voteOf d := by
  unfold St.voteOf St.setVote
  rw [cand?_upd s cid d (fun y => { y with vote := v }) (fun _ => rfl)]
  cases hf : s.cand? d with
  | none => rfl
  | some y =>
    have hy : y.cid = d := by
      have := List.find?_some hf; simpa using this
    have hne' : ¬ y.cid = cid := by rw [hy]; exact hne
    simp [hne']

/-- one exclusion transfer keeps the other just-defeated candidates just defeated -/
theorem justDefeated_after_transfer (hA : LawfulArith A) {s : St α} (h : Inv A s) (c : Nat) (rest : List Nat) (verb : String)
    (hj : JustDefeated A s (c :: rest)) : JustDefeated A (transferDefeated A s [c] verb) rest := by
  obtain ⟨hnd, hx⟩ := hj
  have hnd' := (List.nodup_cons.1 hnd)
  refine ⟨hnd'.2, ?_⟩
  intro cid hcid
  obtain ⟨x, hxm, hxc, hns, hnh, hv⟩ := hx cid (by simp [hcid])
  have hne : cid ≠ c := fun e => hnd'.1 (e ▸ hcid)
  rw [transferDefeated_eq]
  have hskT := transferAll_skel A s [c] id
  have hwfT : (transferAll A s [c] id).WF := WF_of_skel hskT.symm h.wf
  -- x's counterpart in the new state
  have hsk : (defeatedCore A s [c]).skel = s.skel := by
    unfold defeatedCore; simp only [List.foldl_cons, List.foldl_nil]; rw [setVote_skel, hskT]
  have hcands : ((defeatedCore A s [c]).logAct A "transfer" verb [c]).cands = (defeatedCore A s [c]).cands := logAct_cands A _ _ _ _
  have hxex : ∃ x' ∈ (defeatedCore A s [c]).cands, x'.skel = x.skel := by
    have : x.skel ∈ s.skel := List.mem_map.2 ⟨x, hxm, rfl⟩
    rw [← hsk] at this
    obtain ⟨x', hx', hsk'⟩ := List.mem_map.1 this
    exact ⟨x', hx', hsk'⟩
  obtain ⟨x', hx'm, hx'sk⟩ := hxex
  have hwfC : (defeatedCore A s [c]).WF := WF_of_skel hsk.symm h.wf
  refine ⟨x', by rw [hcands]; exact hx'm, (skel_cid hx'sk).trans hxc, ?_, ?_, ?_⟩
  · have hst := skel_st hx'sk
    unfold Cand.inScope; rw [hst.1, hst.2]; exact hns
  · rw [(skel_st hx'sk).1]; exact hnh
  · -- vote = tally, through transferAll_tally
    have hI0 : s.voteOf cid = s.tally A cid := by rw [← hxc, voteOf_of_mem h.wf hxm, hxc]; exact hv
    have hT := transferAll_tally A (lawfulAdd_of hA) s h.bwf [c] id cid (by simpa using hne) hI0
    have hv1 : (defeatedCore A s [c]).voteOf cid = (transferAll A s [c] id).voteOf cid := by
      unfold defeatedCore; simp only [List.foldl_cons, List.foldl_nil]
      exact voteOf_setVote_ne _ c cid _ hne
    have ht1 : ((defeatedCore A s [c]).logAct A "transfer" verb [c]).tally A cid = (transferAll A s [c] id).tally A cid := by
      unfold St.tally; rw [logAct_ballots]
      unfold defeatedCore; simp only [List.foldl_cons, List.foldl_nil]; rfl
    have hx'v : x'.vote = (defeatedCore A s [c]).voteOf cid := by
      rw [← hxc, ← skel_cid hx'sk]; exact (voteOf_of_mem hwfC hx'm).symm
    rw [ht1, hx'v, hv1]; exact hT

theorem nonElected_after_transfer (s : St α) (c : Nat) (verb : String) {cid : Nat}
    (h : ∀ x ∈ s.cands, x.cid = cid → x.st ≠ .elected) :
    ∀ x ∈ (transferDefeated A s [c] verb).cands, x.cid = cid → x.st ≠ .elected := by
  rw [transferDefeated_eq]
  have hsk : (defeatedCore A s [c]).skel = s.skel := by
    unfold defeatedCore; simp only [List.foldl_cons, List.foldl_nil]; rw [setVote_skel, transferAll_skel]
  intro x hx hxc
  rw [logAct_cands] at hx
  exact nonElected_of_skel hsk h x hx hxc

/-- transferring the ballots of just-defeated candidates one candidate at a time -/
theorem seqTransfer_spec (hA : LawfulArith A) (u : α) (rem : List (Cand α)) {s : St α} (hE : InvE A s) (hM : Mon s)
    (hj : JustDefeated A s (rem.map (·.cid)))
    (hne : ∀ cid ∈ rem.map (·.cid), ∀ x ∈ s.cands, x.cid = cid → x.st ≠ .elected) :
    let t := rem.foldl (fun acc c => transferDefeated A acc [c.cid] "Transfer defeated") s
    InvE A t ∧ Mon t ∧ Step s t ∧ (LInv A u s → LInv A u t) := by
  induction rem generalizing s with
  | nil =>
    exact ⟨hE, hM, ⟨id, id, Frame.refl s, Ext.refl s, rfl, rfl, id, rfl⟩, id⟩
  | cons c cs ih =>
    simp only [List.foldl_cons, List.map_cons] at hj hne ⊢
    have hx1 : ∀ cid ∈ [c.cid], ∃ x ∈ s.cands, x.cid = cid ∧ ¬ x.inScope ∧ x.st ≠ .hopeful ∧ x.vote = s.tally A cid := by
      intro cid hcid; simp at hcid; subst hcid; exact hj.2 c.cid (by simp)
    have hI1 := hE.1.transferDefeatedMany A hA [c.cid] "Transfer defeated" (by simp) hx1
    have hne1 : ∀ cid ∈ [c.cid], ∀ x ∈ s.cands, x.cid = cid → x.st ≠ .elected := by
      intro cid hcid; simp at hcid; subst hcid; exact hne c.cid (by simp)
    have hE1 := EHQ.transferDefeated A hA hE.1 hE.2 [c.cid] "Transfer defeated" hne1
    have hM1 := Mon.transferDefeated A hM [c.cid] "Transfer defeated"
    have hst1 : Step s (transferDefeated A s [c.cid] "Transfer defeated") := by
      rw [transferDefeated_eq]
      exact (step_defeatedCore A hA hE.1 [c.cid] hne1).trans (step_logAct A _ _ _ _)
    have hj1 := justDefeated_after_transfer A hA hE.1 c.cid (cs.map (·.cid)) "Transfer defeated" hj
    have hne' : ∀ cid ∈ cs.map (·.cid), ∀ x ∈ (transferDefeated A s [c.cid] "Transfer defeated").cands, x.cid = cid → x.st ≠ .elected := by
      intro cid hcid
      exact nonElected_after_transfer A s c.cid _ (hne cid (by simp [hcid]))
    obtain ⟨a1, a2, a3, a4⟩ := ih ⟨hI1, hE1⟩ hM1 hj1 hne'
    refine ⟨a1, a2, hst1.trans a3, fun hl => a4 ?_⟩
    exact LInv.transferDefeatedMany A hA u hE.1 hl [c.cid] "Transfer defeated" (by decide) (by simp) hx1

/-! ## the lowest tally is attained -/
theorem pyMin_mem (x : α) (l : List α) : A.pyMin x l ∈ x :: l := by
  unfold Arith.pyMin
  induction l generalizing x with
  | nil => simp
  | cons y ys ih =>
    simp only [List.foldl_cons]
    by_cases hlt : A.lt y x = true
    · simp only [hlt, if_true]
      have := ih y
      simp only [List.mem_cons] at this ⊢
      rcases this with h | h
      · right; left; exact h
      · right; right; exact h
    · simp only [hlt, Bool.false_eq_true, if_false]
      have := ih x
      simp only [List.mem_cons] at this ⊢
      rcases this with h | h
      · left; exact h
      · right; right; exact h

theorem minVoteOf_mem (l : List (Cand α)) (lv : α) (h : minVoteOf A l = some lv) : ∃ c ∈ l, c.vote = lv := by
  cases l with
  | nil => simp [minVoteOf] at h
  | cons c cs =>
    simp only [minVoteOf, Option.some.injEq] at h
    have := pyMin_mem A c.vote (cs.map (·.vote))
    rw [h] at this
    rcases List.mem_cons.1 this with h1 | h1
    · exact ⟨c, by simp, h1.symm⟩
    · obtain ⟨c', hc', hv⟩ := List.mem_map.1 h1
      exact ⟨c', by simp [hc'], hv⟩

/-- `==` of the arithmetic is reflexive (it is for every arithmetic class: a value compares equal to itself) -/
def EqRefl : Prop := ∀ x : α, A.eq x x = true

theorem fixed_eqRefl (p : Nat) : EqRefl (fixedArith p) := by
  intro x; simp [Arith.eq, fixedArith, intCmp]

/-! ## the exclusion step of wigm, zero batch included -/
theorem wigmDefeatStep_all (hA : LawfulArith A) (hr : EqRefl A) (u : α) (o : WigmOpts) {s : St α} (hE : InvE A s) (hM : Mon s)
    (hh : s.hopeful ≠ []) (hgt : s.seats < sumHE s) (hel : nEl s ≤ s.seats) :
    InvE A (wigmDefeatStep A o s) ∧ Mon (wigmDefeatStep A o s) ∧ Frame s (wigmDefeatStep A o s)
    ∧ Ext s (wigmDefeatStep A o s) ∧ s.seats ≤ sumHE (wigmDefeatStep A o s)
    ∧ (mu (wigmDefeatStep A o s) < mu s ∨ (wigmDefeatStep A o s).crash.isSome = true)
    ∧ (LInv A u s → LInv A u (wigmDefeatStep A o s)) := by
  obtain ⟨lv, hm⟩ := minVoteOf_isSome A s.hopeful hh
  by_cases hzc : (A.eq lv A.zero && o.batchZero && decide (((s.hopeful.filter (fun c => A.eq c.vote lv)).length : Int)
      ≤ (s.hopeful.length : Int) - s.seatsLeft)) = true
  · -- the zero batch
    have hstep : wigmDefeatStep A o s =
        (s.hopeful.filter (fun c => A.eq c.vote lv)).foldl (fun acc c => transferDefeated A acc [c.cid] "Transfer defeated")
          ((s.hopeful.filter (fun c => A.eq c.vote lv)).foldl (fun acc c => acc.defeat A c.cid "Defeat batch(zero)") s) := by
      unfold wigmDefeatStep; rw [hm]; dsimp only; rw [if_pos hzc]
    rw [hstep]
    simp only [Bool.and_eq_true, decide_eq_true_eq] at hzc
    have hb := hzc.2
    generalize hlows : s.hopeful.filter (fun c => A.eq c.vote lv) = lows at *
    have hsub : ∀ w ∈ lows, w ∈ s.hopeful := by intro w hw; rw [← hlows] at hw; exact (List.mem_filter.1 hw).1
    have hnd : (lows.map (·.cid)).Nodup := by
      rw [← hlows]
      exact List.Nodup.sublist (List.Sublist.map _ List.filter_sublist) (hopeful_cids_nodup hE.1.wf)
    have hne : lows ≠ [] := by
      obtain ⟨c, hc, hv⟩ := minVoteOf_mem A s.hopeful lv hm
      intro e
      have : c ∈ lows := by rw [← hlows]; exact List.mem_filter.2 ⟨hc, by rw [hv]; exact hr lv⟩
      rw [e] at this; cases this
    have hpos : 0 < lows.length := List.length_pos_of_ne_nil hne
    obtain ⟨a1, a2, a3, a4, a5, a6, a7, a8, _, a10⟩ := defeatMany_spec A hE hM lows lows "Defeat batch(zero)"
      (List.Perm.refl _) hnd hsub
    have hL1 : LInv A u s → LInv A u (lows.foldl (fun acc c => acc.defeat A c.cid "Defeat batch(zero)") s) :=
      fun hl => (hl.foldDefeat A u hE.1.meth lows _).1
    generalize lows.foldl (fun acc c => acc.defeat A c.cid "Defeat batch(zero)") s = s1 at *
    obtain ⟨b1, b2, b3, b4⟩ := seqTransfer_spec A hA u lows a1 a2 a3 a4
    refine ⟨b1, b2, a7.trans b3.frame, a8.trans b3.ext, ?_, Or.inl ?_, fun hl => b4 (hL1 hl)⟩
    · rw [b3.sumHE]; unfold sumHE St.seatsLeft nHop nEl at *; omega
    · rw [b3.mu]; omega
  · -- a single exclusion
    have hzc' : (A.eq lv A.zero && o.batchZero && decide (((s.hopeful.filter (fun c => A.eq c.vote lv)).length : Int)
        ≤ (s.hopeful.length : Int) - s.seatsLeft)) = false := by simpa using hzc
    have hstep : wigmDefeatStep A o s = wigmDefeatStep A { o with batchZero := false } s := by
      unfold wigmDefeatStep; rw [hm]; dsimp only; rw [hzc']; simp
    rw [hstep]
    have hI := hE.1
    refine ⟨InvE.wigmDefeatStep1 A hA _ rfl hE, (InvM.wigmDefeatStep1 A hA _ rfl ⟨hE.1, hM⟩).2, frame_wigmDefeatStep A _ s,
      ext_wigmDefeatStep A _ s, ?_, wigmDefeatStep_progress A _ rfl hE.1 hh, ?_⟩
    · have := sumHE_wigmDefeatStep A { o with batchZero := false } rfl hE.1; omega
    · intro hl; exact (InvL.wigmDefeatStep1 A hA u _ rfl ⟨hE.1, hl⟩).2

/-! ## every configuration of wigm -/
def WigmAll (u : α) (s : St α) : Prop := WigmInv A s ∧ LInv A u s

theorem wigmBody_spec_all (hA : LawfulArith A) (hr : EqRefl A) (u : α) (hu : 0 ≤ u) (hlow : RewLower A u (rewMulDiv A))
    (o : WigmOpts) (hex : o.prf = true → A.exact = false) {s : St α} (h : WigmAll A u s) (hg : stdGuard s = true) :
    WigmAll A u (wigmBody A o s).1
    ∧ ((wigmBody A o s).2 = .cont → mu (wigmBody A o s).1 < mu s ∨ (wigmBody A o s).1.crash.isSome = true)
    ∧ ((wigmBody A o s).2 = .brk → ((wigmBody A o s).1.hopeful.length : Int) ≤ (wigmBody A o s).1.seatsLeft) := by
  obtain ⟨⟨hE, hM, hD, hJ⟩, hL⟩ := h
  have hgt := guard_strict s hg
  have hE1 : InvE A (s.newRound A) := ⟨hE.1.newRound A, EHQ.newRound A hE.2⟩
  have hM1 := hM.newRound A
  have hL1 := hL.newRound A u hE.1.meth
  have hsound : ∀ c, (if o.prf then hasQuotaGE A else hasQuotaX A) (s.newRound A) c = true → (s.newRound A).quota ≤ c.vote := by
    intro c hc
    by_cases hp : o.prf = true
    · simp only [hp, if_true] at hc; exact hasQuotaGE_sound A hA (hex hp) _ c hc
    · simp only [hp] at hc; exact hasQuotaX_sound A hA _ c hc
  have hE2 : InvE A (wigmElect A o (s.newRound A)) := by unfold wigmElect; exact hE1.electWinners A _ _ _ hsound
  have hM2 : Mon (wigmElect A o (s.newRound A)) := by
    unfold wigmElect; exact (InvM.electWinners A ⟨hE1.1, hM1⟩ _ _ _ hsound).2
  have hL2 : LInv A u (wigmElect A o (s.newRound A)) := by
    unfold wigmElect; exact hL1.electWinners A u hE1.1.meth _ _ _
  have hF2 : Frame s (wigmElect A o (s.newRound A)) := (frame_newRound A s).trans (frame_wigmElect A o _)
  have hmu2 : mu (wigmElect A o (s.newRound A)) ≤ mu s := by
    rw [← mu_newRound A s]; unfold wigmElect; exact mu_electWinners_le A hE1.1 _ _ _ hsound
  have hS2 : sumHE (wigmElect A o (s.newRound A)) = sumHE s := by
    rw [← sumHE_newRound A s]; unfold wigmElect; exact sumHE_electWinners A hE1.1 _ _ _ hsound
  have hD2 : DroopQuota A (wigmElect A o (s.newRound A)) := hD.of_frame A hF2
  have hel2 : nEl (wigmElect A o (s.newRound A)) ≤ (wigmElect A o (s.newRound A)).seats := elected_le_seats A hE2.1 hE2.2 hD2
  have hgt2 : (wigmElect A o (s.newRound A)).seats < sumHE (wigmElect A o (s.newRound A)) := by rw [hF2.2.1, hS2]; exact hgt
  unfold wigmBody
  generalize wigmElect A o (s.newRound A) = s2 at *
  unfold wigmAfterElect
  by_cases hsure : (wigmSure A o s2).isEmpty = false
  · simp only [hsure, Bool.not_false, if_true]
    have hne : wigmSure A o s2 ≠ [] := by intro e; rw [e] at hsure; simp at hsure
    have hsub : ∀ w ∈ wigmSure A o s2, w ∈ s2.hopeful := by
      intro w hw; unfold wigmSure at hw; split at hw
      · exact batchDefeatGroups_hopeful A s2 _ w hw
      · cases hw
    have hnd : ((wigmSure A o s2).map (·.cid)).Nodup := by
      unfold wigmSure; split
      · exact batchDefeatGroups_nodup A s2 hE2.1.wf _
      · simp
    have hb : ((wigmSure A o s2).length : Int) ≤ (s2.hopeful.length : Int) - s2.seatsLeft := by
      unfold wigmSure at hne ⊢
      by_cases hpb : o.prfBatch = true
      · simp only [hpb, if_true] at hne ⊢
        rcases batchDefeatGroups_bound A s2 (A.sum (s2.pendingL.map (fun c => A.sub c.vote s2.quota))) with h | h
        · exact h
        · exact absurd h hne
      · simp only [hpb, Bool.false_eq_true, if_false] at hne
        exact absurd rfl hne
    obtain ⟨b1, b2, b3, _, b5, b6, b7⟩ := wigmBatchStep_spec A hA hE2 hM2 _ hsub hnd hne hb hel2
    have hLb := (InvL.wigmBatchStep A hA u ⟨hE2.1, hL2⟩ _ hsub hnd).2
    exact ⟨⟨⟨b1, b2, hD2.of_frame A b3, b5⟩, hLb⟩, fun _ => Or.inl (by omega), b7⟩
  · have hsure' : (wigmSure A o s2).isEmpty = true := by simpa using hsure
    simp only [hsure', Bool.not_true, Bool.false_eq_true, if_false]
    by_cases hp : s2.pendingL.isEmpty = false
    · simp only [hp, Bool.not_false, if_true]
      have hp' : s2.pendingL ≠ [] := by intro e; rw [e] at hp; simp at hp
      refine ⟨⟨⟨hE2.wigmSurplusStep A hA, (InvM.wigmSurplusStep A hA ⟨hE2.1, hM2⟩).2,
        hD2.of_frame A (frame_wigmSurplusStep A s2), ?_⟩, (InvL.wigmSurplusStep A hA u hu hlow ⟨hE2.1, hL2⟩).2⟩, ?_,
        fun hc => by cases hc⟩
      · rw [(frame_wigmSurplusStep A s2).2.1, sumHE_wigmSurplusStep]; omega
      · intro _
        rcases wigmSurplusStep_progress A hE2.1 hp' with hlt | hcr
        · left; omega
        · right; exact hcr
    · have hp' : s2.pendingL.isEmpty = true := by simpa using hp
      simp only [hp', Bool.not_true, Bool.false_eq_true, if_false]
      have hhne : s2.hopeful ≠ [] := by
        intro e
        have : nHop s2 = 0 := by unfold nHop; rw [e]; rfl
        unfold sumHE at hgt2; omega
      have hh : s2.hopeful.isEmpty = false := by
        cases hl : s2.hopeful with
        | nil => exact absurd hl hhne
        | cons x xs => rfl
      simp only [hh, Bool.not_false, if_true]
      obtain ⟨c1, c2, c3, _, c5, c6, c7⟩ := wigmDefeatStep_all A hA hr u o hE2 hM2 hhne hgt2 hel2
      refine ⟨⟨⟨c1, c2, hD2.of_frame A c3, by rw [c3.2.1]; exact c5⟩, c7 hL2⟩, ?_, fun hc => by cases hc⟩
      intro _
      rcases c6 with hlt | hcr
      · left; omega
      · right; exact hcr

theorem WigmAll.init (hA : LawfulArith A) (u : α) (o : WigmOpts) {s0 : St α} (h : GStart A (wigmQuota A o s0) s0)
    (hl : LStart A (wigmQuota A o s0) s0) : WigmAll A u (wigmInit A o s0) :=
  ⟨WigmInv.init A hA o h, by rw [wigmInit_eq]; exact LInv.gInit A hA u hl⟩

/-- **C01, every configuration of wigm / wigm-prf / wigm-prf-batch**, `defeat_batch=zero` included: the count returns -/
theorem wigmCount_terminates_all (hA : LawfulArith A) (hr : EqRefl A) (u : α) (hu : 0 ≤ u) (hlow : RewLower A u (rewMulDiv A))
    (o : WigmOpts) (hex : o.prf = true → A.exact = false) (s0 : St α) (h0 : GStart A (wigmQuota A o s0) s0)
    (hl0 : LStart A (wigmQuota A o s0) s0) : ∃ t, wigmCount A o s0 = some t := by
  have hinit := WigmAll.init A hA u o h0 hl0
  have hlen : (wigmInit A o s0).cands.length = s0.cands.length := by rw [wigmInit_eq]; exact (h0.facts A hA).2.2.2.2.2.2.1
  have hfuel : mu (wigmInit A o s0) + 2 ≤ 2 * s0.cands.length + 3 := by
    have := mu_le_two_mul (wigmInit A o s0); omega
  obtain ⟨t, ht⟩ := loopN_total' (WigmAll A u) stdGuard (wigmBody A o)
    (fun s hs hg => (wigmBody_spec_all A hA hr u hu hlow o hex hs hg).1)
    (fun s hs hg hc => (wigmBody_spec_all A hA hr u hu hlow o hex hs hg).2.1 hc)
    (2 * s0.cands.length + 3) (wigmInit A o s0) hinit (by omega) (Or.inr hfuel)
  exact ⟨epilogueElectOrDefeat A t, by unfold wigmCount; rw [ht]⟩

/-- **C01 / C02 / C06 / C09, every configuration of wigm**: the final state satisfies the conservation bundle and the lower
    bound (hence every snapshot of the record does), the record is forward-only and append-only, and unless the crash flag is
    up exactly `seats` candidates are elected and nobody is left hopeful -/
theorem wigm_result_all (hA : LawfulArith A) (hr : EqRefl A) (u : α) (hu : 0 ≤ u) (hlow : RewLower A u (rewMulDiv A))
    (o : WigmOpts) (hex : o.prf = true → A.exact = false) (s0 t : St α) (h0 : GStart A (wigmQuota A o s0) s0)
    (hl0 : LStart A (wigmQuota A o s0) s0) (h : wigmCount A o s0 = some t) :
    Inv A (t.logAct A "end" "Count Complete" []) ∧ LInv A u (t.logAct A "end" "Count Complete" [])
    ∧ Mon t ∧ Ext s0 t ∧ (t.crash = none → nEl t = t.seats ∧ nHop t = 0) := by
  have hinit := WigmAll.init A hA u o h0 hl0
  unfold wigmCount at h
  cases hl : loopN stdGuard (wigmBody A o) (2 * s0.cands.length + 3) (wigmInit A o s0) with
  | none => rw [hl] at h; cases h
  | some s4 =>
    rw [hl] at h; cases h
    have hP := loopN_preserves_guard (WigmAll A u) stdGuard (wigmBody A o)
      (fun s hs hg => (wigmBody_spec_all A hA hr u hu hlow o hex hs hg).1) _ _ _ hinit hl
    obtain ⟨⟨hE, hM, hD, hJ⟩, hL⟩ := hP
    have hX : Ext s0 s4 := by
      have h1 : Ext s0 (wigmInit A o s0) := by rw [wigmInit_eq]; exact (h0.facts A hA).2.2.2.2.2.2.2
      exact h1.trans (ext_loopN stdGuard (wigmBody A o) (ext_wigmBody A o) _ _ _ hl)
    have hep := InvL.epilogue A hA u ⟨hE.1, hL⟩
    refine ⟨hep.1.logAct A _ _ _, hep.2.logAct A u hep.1.meth _ _ _ (by decide), (epilogue_good A ⟨hE.1, hM⟩).2,
      hX.trans (ext_epilogue A s4), ?_⟩
    intro hcr
    rw [epilogue_crash] at hcr
    have hel : nEl s4 ≤ s4.seats := elected_le_seats A hE.1 hE.2 hD
    have hfill : nEl s4 = s4.seats ∨ nHop s4 + nEl s4 = s4.seats := by
      rcases loopN_exit (WigmAll A u) stdGuard (wigmBody A o)
        (fun s hs hg => (wigmBody_spec_all A hA hr u hu hlow o hex hs hg).1) _ _ _ hinit hl with hc | hgf | ⟨s', hs', hg', hb⟩
      · rw [hcr] at hc; simp at hc
      · unfold stdGuard St.seatsLeft at hgf
        simp only [Bool.and_eq_false_iff, decide_eq_false_iff_not, not_lt] at hgf
        unfold sumHE at hJ
        unfold nHop nEl at *
        rcases hgf with h | h
        · right; omega
        · left; omega
      · have := (wigmBody_spec_all A hA hr u hu hlow o hex hs' hg').2.2
        rw [hb] at this
        have hfin := this rfl
        dsimp only at hfin
        unfold St.seatsLeft at hfin
        unfold sumHE at hJ
        unfold nHop nEl at *
        right; omega
    unfold epilogueElectOrDefeat
    obtain ⟨u1, u2, u3⟩ := counts_foldUnpend s4.pendingL s4
    have hIu := hE.1.foldUnpend A s4.pendingL
    have := foldRemaining_counts A hIu (s4.pendingL.foldl (fun acc c => acc.unpendSilent c.cid) s4).hopeful
      (hopeful_cids_nodup hIu.wf) (fun w hw => mem_hopeful.1 hw) rfl (by rw [u1, u2, u3]; exact hfill)
    exact ⟨this.2, this.1⟩

end Droop
