import DroopProofs.DropWWigm

/-! # C11, cfer / cfer-batch: the count of the profile with the withdrawn candidates deleted -/
namespace Droop
variable {α : Type} [CommRing α] [LinearOrder α] [IsStrictOrderedRing α] (A : Arith α)

theorem nonWId_of_pendingL {s : St α} {w : Cand α} (h : w ∈ s.pendingL) : NonWId s w.cid := by
  obtain ⟨h1, h2, _⟩ := mem_pendingL.1 h
  exact ⟨w, h1, rfl, by rw [h2]; intro e; cases e⟩

theorem find_filter_nonW (l : List (Cand α)) (cid : Nat) (h : ∀ c ∈ l, c.cid = cid → nonW c = true) :
    (l.filter nonW).find? (fun c => c.cid == cid) = l.find? (fun c => c.cid == cid) := by
  induction l with
  | nil => rfl
  | cons x xs ih =>
    have ih' := ih (fun c hc hcc => h c (by simp [hc]) hcc)
    by_cases hx : (x.cid == cid) = true
    · have hn := h x (by simp) (by simpa using hx)
      simp only [List.filter_cons, hn, if_true, List.find?_cons, hx]
    · have hf : (x.cid == cid) = false := by simpa using hx
      by_cases hn : nonW x = true
      · simp only [List.filter_cons, hn, if_true, List.find?_cons, hf]; exact ih'
      · simp only [List.filter_cons, hn, Bool.false_eq_true, if_false, List.find?_cons, hf]; exact ih'

theorem cand?_dropW {s : St α} (hwf : s.WF) {cid : Nat} (h : NonWId s cid) : (dropW s).cand? cid = s.cand? cid := by
  unfold St.cand? dropW
  simp only
  apply find_filter_nonW
  intro c hc hcc
  have := noW_of_nonWId hwf h c hc hcc
  unfold nonW; simpa using this

theorem cferBatch_go_dropW (s : St α) (surplus : α) (cands : List (Cand α)) (nEl : Nat) (top : Option (Cand α)) :
    ∀ (fuel t : Nat) (best : List (Cand α)),
      cferBatch.go A (dropW s) surplus cands nEl top t fuel best = cferBatch.go A s surplus cands nEl top t fuel best := by
  intro fuel
  induction fuel with
  | zero => intro t best; rfl
  | succ n ih =>
    intro t best
    unfold cferBatch.go
    simp only [seats_dropW, quota_dropW, ih]

theorem cferBatch_dropW (s : St α) : cferBatch A (dropW s) = cferBatch A s := by
  unfold cferBatch
  simp only [pendingL_dropW, hopeful_dropW, elected_dropW, quota_dropW]
  exact cferBatch_go_dropW A s _ _ _ _ _ _ _

theorem nonWId_foldElect {s : St α} {c : Nat} (h : NonWId s c) (ws : List (Cand α)) (verb : Cand α → String) (pend : Cand α → Bool) :
    NonWId (ws.foldl (fun acc c => acc.elect A c.cid (verb c) (pend c)) s) c := by
  induction ws generalizing s with
  | nil => exact h
  | cons w ws ih => simp only [List.foldl_cons]; exact ih (nonWId_elect A h _ _ _)

theorem dropW_cferFinishDefeats {s : St α} (hwf : s.WF) (defeats : List (Cand α)) :
    cferFinishDefeats A (dropW s) defeats = (dropW (cferFinishDefeats A s defeats).1, (cferFinishDefeats A s defeats).2) := by
  unfold cferFinishDefeats
  simp only [hopeful_dropW, elected_dropW, seats_dropW, pendingL_dropW]
  split
  · simp only
    have h1 : dropW (s.pendingL.foldl (fun acc c => acc.elect A c.cid "Elect pending" false) s)
        = s.pendingL.foldl (fun acc c => acc.elect A c.cid "Elect pending" false) (dropW s) :=
      dropW_foldElect A s.pendingL (fun _ => "Elect pending") (fun _ => false) hwf (fun w hw => nonWId_of_pendingL hw)
    rw [← h1]
    simp only [hopeful_dropW]
    have hwf1 : (s.pendingL.foldl (fun acc c => acc.elect A c.cid "Elect pending" false) s).WF :=
      WF_foldElect A hwf s.pendingL (fun _ => "Elect pending") (fun _ => false)
    rw [dropW_foldElect A _ (fun _ => "Elect remaining") (fun _ => false) hwf1 (fun w hw => nonWId_of_hopeful hw)]
  · simp only; rw [dropW_transferDefeated]

theorem dropW_cferElectAll {s : St α} (hwf : s.WF) :
    cferElectAll A (dropW s) = (dropW (cferElectAll A s).1, (cferElectAll A s).2) := by
  unfold cferElectAll
  simp only [hopeful_dropW]
  rw [dropW_foldElect A s.hopeful (fun _ => "Elect all") (fun _ => false) hwf (fun w hw => nonWId_of_hopeful hw)]

theorem dropW_cferElect {s : St α} (hwf : s.WF) : dropW (cferElect A s) = cferElect A (dropW s) := by
  unfold cferElect electWinners
  simp only [hopeful_dropW]
  have hq : hasQuotaGE A (dropW s) = hasQuotaGE A s := by funext c; rfl
  rw [hq]
  apply dropW_foldElect A _ _ _ hwf
  intro w hw
  rw [List.mem_filter] at hw
  exact nonWId_of_hopeful ((mem_pySorted _ _ _ _).1 hw.1)

theorem dropW_cferSeatsFull {s : St α} (hwf : s.WF) :
    cferSeatsFull A (dropW s) = (dropW (cferSeatsFull A s).1, (cferSeatsFull A s).2) := by
  unfold cferSeatsFull
  simp only [pendingL_dropW]
  rw [← dropW_foldUnpend]
  simp only [hopeful_dropW]
  have hwf5 : (s.pendingL.foldl (fun acc c => acc.unpendSilent c.cid) s).WF := by
    have : ∀ (l : List (Cand α)) (t : St α), t.WF → (l.foldl (fun acc c => acc.unpendSilent c.cid) t).WF := by
      intro l; induction l with
      | nil => intro t h; exact h
      | cons c cs ih => intro t h; simp only [List.foldl_cons]; exact ih _ (WF_upd h _ _ (fun _ => rfl))
    exact this _ _ hwf
  rw [dropW_foldDefeat A _ (fun _ => "Defeat remaining") hwf5 (fun w hw => nonWId_of_hopeful hw)]

theorem dropW_cferDefeatBatch {s : St α} (hwf : s.WF) (defeats : List (Cand α)) (hd : ∀ w ∈ defeats, w ∈ s.hopeful) :
    cferDefeatBatch A (dropW s) defeats = (dropW (cferDefeatBatch A s defeats).1, (cferDefeatBatch A s defeats).2) := by
  unfold cferDefeatBatch
  rw [← dropW_foldDefeat A (byBallotOrder defeats) (fun _ => "Defeat batch") hwf
    (fun w hw => nonWId_of_hopeful (hd w ((mem_pySorted _ _ _ _).1 hw)))]
  exact dropW_cferFinishDefeats A (WF_foldDefeat A hwf _ _) defeats

theorem dropW_cferSurplusOne {s : St α} (hwf : s.WF) (c : Cand α) (hc : NonWId s c.cid) :
    dropW (cferSurplusOne A s c) = cferSurplusOne A (dropW s) c := by
  unfold cferSurplusOne
  rw [cand?_dropW hwf hc]
  cases s.cand? c.cid with
  | none => rfl
  | some cur => simp only; rw [dropW_transferSurplus, dropW_unpendLog]

theorem nonWId_of_skel {s t : St α} {d : Nat} (h : NonWId s d) (hsk : t.skel = s.skel) : NonWId t d := by
  obtain ⟨x, hx, hxc, hxs⟩ := h
  obtain ⟨x', hx', hs'⟩ := mem_of_skel_eq hsk.symm hx
  exact ⟨x', hx', (skel_cid hs').trans hxc, by rw [(skel_st hs').1]; exact hxs⟩

theorem WF_unpendLog {s : St α} (hwf : s.WF) (cid : Nat) (verb : String) : (s.unpendLog A cid verb).WF := by
  unfold St.unpendLog
  apply WF_logAct
  exact WF_upd hwf cid (fun c => { c with pending := false }) (fun _ => rfl)

theorem nonWId_unpendLog {s : St α} {d : Nat} (h : NonWId s d) (cid : Nat) (verb : String) : NonWId (s.unpendLog A cid verb) d := by
  unfold St.unpendLog
  exact nonWId_of_cands (nonWId_upd h cid (fun c => { c with pending := false }) (fun _ => rfl) (fun _ hx => hx))
    (logAct_cands A _ _ _ _)

theorem WF_cferSurplusOne {s : St α} (hwf : s.WF) (c : Cand α) : (cferSurplusOne A s c).WF := by
  unfold cferSurplusOne
  cases s.cand? c.cid with
  | none => exact hwf
  | some cur => exact WF_of_skel (transferSurplus_skel A _ cur _ _).symm (WF_unpendLog A hwf _ _)

theorem nonWId_cferSurplusOne {s : St α} {d : Nat} (h : NonWId s d) (c : Cand α) : NonWId (cferSurplusOne A s c) d := by
  unfold cferSurplusOne
  cases s.cand? c.cid with
  | none => exact h
  | some cur => exact nonWId_of_skel (nonWId_unpendLog A h _ _) (transferSurplus_skel A _ cur _ _)

theorem dropW_cferSurplusAll {s : St α} (hwf : s.WF) : dropW (cferSurplusAll A s) = cferSurplusAll A (dropW s) := by
  unfold cferSurplusAll
  simp only [pendingL_dropW]
  have key : ∀ (l : List (Cand α)) (t : St α), t.WF → (∀ w ∈ l, NonWId t w.cid) →
      dropW (l.foldl (cferSurplusOne A) t) = l.foldl (cferSurplusOne A) (dropW t) := by
    intro l
    induction l with
    | nil => intro t _ _; rfl
    | cons w ws ih =>
      intro t ht hl
      simp only [List.foldl_cons]
      rw [ih _ (WF_cferSurplusOne A ht w) (fun w' hw' => nonWId_cferSurplusOne A (hl w' (by simp [hw'])) w),
        dropW_cferSurplusOne A ht w (hl w (by simp))]
  exact key _ _ hwf (fun w hw => nonWId_of_pendingL hw)

theorem dropW_cferDefeatLow {s : St α} (hwf : s.WF) :
    cferDefeatLow A (dropW s) = (dropW (cferDefeatLow A s).1, (cferDefeatLow A s).2) := by
  unfold cferDefeatLow
  simp only [hopeful_dropW]
  cases hm : minVoteOf A s.hopeful with
  | none => simp only; rw [dropW_setCrash]
  | some lv =>
    simp only
    rw [dropW_breakTie]
    have hmem := breakTie_mem A s (s.hopeful.filter (fun c => A.eq c.vote lv)) "Break tie (defeat)"
    cases hb : breakTie A s (s.hopeful.filter (fun c => A.eq c.vote lv)) "Break tie (defeat)" with
    | mk s1 oc =>
      rw [hb] at hmem
      cases oc with
      | none => rfl
      | some lc =>
        simp only
        have hl := hmem lc rfl
        have hnw : NonWId s1 lc.cid := by
          have := nonWId_breakTie A (nonWId_of_hopeful (List.mem_filter.1 hl).1)
            (s.hopeful.filter (fun c => A.eq c.vote lv)) "Break tie (defeat)"
          rw [hb] at this; exact this
        have hwf1 : s1.WF := by
          have := WF_breakTie A hwf (s.hopeful.filter (fun c => A.eq c.vote lv)) "Break tie (defeat)"
          rw [hb] at this; exact this
        rw [← dropW_defeat A hwf1 hnw]
        exact dropW_cferFinishDefeats A (WF_defeat A hwf1 _ _) [lc]

theorem dropW_cferAfterElect (batch : Bool) {s : St α} (hwf : s.WF) :
    cferAfterElect A batch (dropW s) = (dropW (cferAfterElect A batch s).1, (cferAfterElect A batch s).2) := by
  unfold cferAfterElect
  simp only [elected_dropW, seats_dropW, cferBatch_dropW, pendingL_dropW]
  by_cases h1 : s.elected.length ≥ s.seats
  · rw [if_pos h1, if_pos h1]; exact dropW_cferSeatsFull A hwf
  · rw [if_neg h1, if_neg h1]
    by_cases h2 : (!(if batch then cferBatch A s else []).isEmpty) = true
    · rw [if_pos h2, if_pos h2]
      apply dropW_cferDefeatBatch A hwf
      intro w hw
      cases batch with
      | false => simp at hw
      | true =>
        simp only [if_true] at hw
        exact cferBatch_hopeful A s w hw
    · rw [if_neg h2, if_neg h2]
      by_cases h3 : (!s.pendingL.isEmpty) = true
      · rw [if_pos h3, if_pos h3]; simp only; rw [dropW_cferSurplusAll A hwf]
      · rw [if_neg h3, if_neg h3]; exact dropW_cferDefeatLow A hwf

theorem dropW_cferBody (batch : Bool) {s : St α} (hwf : s.WF) :
    cferBody A batch (dropW s) = (dropW (cferBody A batch s).1, (cferBody A batch s).2) := by
  unfold cferBody
  have hwf1 : (s.newRound A).WF := by unfold St.newRound; exact WF_logAct A (by exact hwf) _ _ _
  rw [← dropW_newRound]
  simp only [round_dropW, hopeful_dropW, seats_dropW]
  split
  · exact dropW_cferElectAll A hwf1
  · have hwf2 : (cferElect A (s.newRound A)).WF := by
      unfold cferElect electWinners; exact WF_foldElect A hwf1 _ _ _
    rw [← dropW_cferElect A hwf1]
    exact dropW_cferAfterElect A batch hwf2

theorem dropW_gInit (q : α) (s0 : St α) : dropW (gInit A q s0) = gInit A q (dropW s0) := by
  unfold gInit
  rw [dropW_logAct, dropW_setExhausted, dropW_firstCount, dropW_setQuota]

/-- **C11, second clause, cfer / cfer-batch** -/
theorem cfer_dropW (hA : LawfulArith A) (hex : A.exact = false) (batch : Bool) (s0 t t' : St α)
    (h0 : GStart A (cferQuota A s0) s0) (h : cferCount A batch s0 = some t) (h' : cferCount A batch (dropW s0) = some t') :
    t' = dropW t := by
  have hinit := CferInv.init A hA h0
  unfold cferCount at h h'
  have hlen : (dropW s0).cands.length ≤ s0.cands.length := List.length_filter_le _ _
  have hq : cferInit A (dropW s0) = dropW (cferInit A s0) := by
    rw [cferInit_eq, cferInit_eq, dropW_gInit]; rfl
  rw [hq] at h'
  have h1 := loopN_fuel_mono (fun _ => true) (cferBody A batch) _ _ _ h' (2 * s0.cands.length + 3) (by omega)
  have h2 := loopN_dropW (CferInv A) (fun _ => true) (cferBody A batch)
    (fun s hs _ hc => hs.step A hA hex batch hc)
    (fun _ => rfl) (fun s hs => dropW_cferBody A batch hs.1.1.wf) (2 * s0.cands.length + 3) _ hinit
  rw [h, h1] at h2
  simpa using h2

end Droop
