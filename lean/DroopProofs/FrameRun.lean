import DroopProofs.MajorityRun

/-! # Quota, seats and ballot count are the same in the state a Gregory count returns as in the state its loop starts in -/
namespace Droop
variable {α : Type} [CommRing α] [LinearOrder α] [IsStrictOrderedRing α] (A : Arith α)

theorem loopN_frame (guard : St α → Bool) (body : St α → St α × Flow) (hb : ∀ s, Frame s (body s).1) :
    ∀ (fuel : Nat) (s t : St α), loopN guard body fuel s = some t → Frame s t := by
  intro fuel
  induction fuel with
  | zero => intro s t h; simp [loopN] at h
  | succ n ih =>
    intro s t h
    unfold loopN at h
    by_cases hc : s.crash.isSome = true
    · simp [hc] at h; cases h; exact Frame.refl _
    · by_cases hg : guard s = true
      · simp only [hc, hg, if_true] at h
        have hb' := hb s
        cases hbody : body s with
        | mk s' fl =>
          rw [hbody] at h hb'
          cases fl with
          | cont => exact hb'.trans (ih _ _ h)
          | brk => simp at h; cases h; exact hb'
      · simp [hc, hg] at h; cases h; exact Frame.refl _

theorem frame_unpendSilent (s : St α) (cid : Nat) : Frame s (s.unpendSilent cid) := frame_upd _ _ _
theorem frame_setVote (s : St α) (cid : Nat) (v : α) : Frame s (s.setVote cid v) := frame_upd _ _ _

/-! ## scotland -/
theorem frame_scotEpilogue (s : St α) : Frame s (scotEpilogue A s) := by
  unfold scotEpilogue
  dsimp only
  refine Frame.trans (frame_foldl _ (fun (acc : St α) (c : Cand α) => frame_unpendSilent acc c.cid) s.pendingL s) ?_
  refine Frame.trans ?_ (frame_foldl _ (fun (acc : St α) (c : Cand α) => frame_defeat A acc c.cid _) _ _)
  split
  · exact frame_foldl _ (fun (acc : St α) (c : Cand α) => frame_elect A acc c.cid _ _) _ _
  · exact Frame.refl _

theorem frame_scotBody (s : St α) : Frame s (scotBody A s).1 := by
  have h1 : Frame s (scotElect A s) := by unfold scotElect; exact frame_electWinners A _ _ _ s
  unfold scotBody
  split
  · exact h1
  · have h2 : Frame s (scotRound A (scotElect A s)) := by
      unfold scotRound; exact h1.trans ((frame_newRound A _).trans (frame_setSurplus _ _))
    unfold scotStage
    split
    · exact h2.trans (frame_scotSurplusStep A _)
    · split
      · rw [scotFinish_fst]; exact h2.trans (frame_scotDefeatStep A _)
      · rw [scotFinish_fst]; exact h2

theorem scot_seats (s0 t : St α) (h : scotCount A s0 = some t) : t.seats = s0.seats := by
  unfold scotCount at h
  cases hl : loopN (fun _ => true) (scotBody A) (2 * s0.cands.length + 3) (scotInit A s0) with
  | none => rw [hl] at h; cases h
  | some s4 =>
    rw [hl] at h
    have ht : t = scotEpilogue A s4 := (Option.some.inj h).symm
    rw [ht, (frame_scotEpilogue A s4).2.1, (loopN_frame _ _ (frame_scotBody A) _ _ _ hl).2.1]
    exact (scotInit_frame A s0).2.1

/-! ## wigm -/
theorem frame_epilogue (s : St α) : Frame s (epilogueElectOrDefeat A s) := by
  unfold epilogueElectOrDefeat
  dsimp only
  refine Frame.trans (frame_foldl _ (fun (acc : St α) (c : Cand α) => frame_unpendSilent acc c.cid) s.pendingL s) ?_
  apply frame_foldl
  intro acc c
  split
  · exact frame_elect A _ _ _ _
  · exact frame_defeat A _ _ _

theorem wigm_seats (o : WigmOpts) (s0 t : St α) (h : wigmCount A o s0 = some t) : t.seats = s0.seats := by
  unfold wigmCount at h
  cases hl : loopN stdGuard (wigmBody A o) (2 * s0.cands.length + 3) (wigmInit A o s0) with
  | none => rw [hl] at h; cases h
  | some s4 =>
    rw [hl] at h
    have ht : t = epilogueElectOrDefeat A s4 := (Option.some.inj h).symm
    rw [ht, (frame_epilogue A s4).2.1, (loopN_frame _ _ (frame_wigmBody A o) _ _ _ hl).2.1, wigmInit_eq]
    exact (gInit_facts A _ s0).2.2.1

/-! ## cfer -/
theorem frame_cferFinishDefeats (s : St α) (defeats : List (Cand α)) : Frame s (cferFinishDefeats A s defeats).1 := by
  unfold cferFinishDefeats
  split
  · exact (frame_foldl _ (fun (acc : St α) (c : Cand α) => frame_elect A acc c.cid _ _) _ _).trans
      (frame_foldl _ (fun (acc : St α) (c : Cand α) => frame_elect A acc c.cid _ _) _ _)
  · exact frame_transferDefeated A _ _ _

theorem frame_cferSurplusOne (acc : St α) (c : Cand α) : Frame acc (cferSurplusOne A acc c) := by
  unfold cferSurplusOne
  split
  · exact (frame_unpendLog A _ _ _).trans (frame_transferSurplus A _ _ _ _)
  · exact Frame.refl _

theorem frame_cferDefeatLow (s : St α) : Frame s (cferDefeatLow A s).1 := by
  unfold cferDefeatLow
  split
  · exact frame_setCrash _ _
  · rename_i lv _
    split
    · rename_i s3 lc heq
      have h1 : Frame s s3 := by
        have := frame_breakTie A s (s.hopeful.filter (fun c => A.eq c.vote lv)) "Break tie (defeat)"
        rw [heq] at this; exact this
      exact h1.trans ((frame_defeat A _ _ _).trans (frame_cferFinishDefeats A _ _))
    · rename_i s3 heq
      have := frame_breakTie A s (s.hopeful.filter (fun c => A.eq c.vote lv)) "Break tie (defeat)"
      rw [heq] at this; exact this

theorem frame_cferAfterElect (batch : Bool) (s : St α) : Frame s (cferAfterElect A batch s).1 := by
  unfold cferAfterElect
  by_cases h1 : s.elected.length ≥ s.seats
  · rw [if_pos h1]
    unfold cferSeatsFull
    exact (frame_foldl _ (fun (acc : St α) (c : Cand α) => frame_unpendSilent acc c.cid) _ _).trans
      (frame_foldl _ (fun (acc : St α) (c : Cand α) => frame_defeat A acc c.cid _) _ _)
  · rw [if_neg h1]
    by_cases h2 : (!(if batch then cferBatch A s else []).isEmpty) = true
    · rw [if_pos h2]
      unfold cferDefeatBatch
      exact (frame_foldl _ (fun (acc : St α) (c : Cand α) => frame_defeat A acc c.cid _) _ _).trans
        (frame_cferFinishDefeats A _ _)
    · rw [if_neg h2]
      by_cases h3 : (!s.pendingL.isEmpty) = true
      · rw [if_pos h3]
        unfold cferSurplusAll
        exact frame_foldl _ (frame_cferSurplusOne A) _ _
      · rw [if_neg h3]; exact frame_cferDefeatLow A s

theorem frame_cferBody (batch : Bool) (s : St α) : Frame s (cferBody A batch s).1 := by
  unfold cferBody
  split
  · unfold cferElectAll
    exact (frame_newRound A s).trans (frame_foldl _ (fun (acc : St α) (c : Cand α) => frame_elect A acc c.cid _ _) _ _)
  · refine (frame_newRound A s).trans (Frame.trans ?_ (frame_cferAfterElect A batch _))
    unfold cferElect; exact frame_electWinners A _ _ _ _

theorem cfer_seats (batch : Bool) (s0 t : St α) (h : cferCount A batch s0 = some t) : t.seats = s0.seats := by
  unfold cferCount at h
  rw [(loopN_frame _ _ (frame_cferBody A batch) _ _ _ h).2.1, cferInit_eq]
  exact (gInit_facts A _ s0).2.2.1

/-! ## mpls -/
theorem frame_mplsLogTransfer (s : St α) (verb : String) (subj : List Nat) : Frame s (mplsLogTransfer A s verb subj) := by
  unfold mplsLogTransfer; exact (frame_setSurplus _ _).trans (frame_logAct A _ _ _ _)

theorem frame_mplsDefeatMany (s : St α) (l : List (Cand α)) : Frame s (mplsDefeatMany A s l).1 := by
  unfold mplsDefeatMany
  refine Frame.trans ?_ (frame_mplsLogTransfer A _ _ _)
  refine Frame.trans ?_ (frame_foldl _ (fun (acc : St α) (c : Nat) => frame_setVote acc c _) _ _)
  exact (frame_foldl _ (fun (acc : St α) (c : Cand α) => frame_defeat A acc c.cid _) _ _).trans (frame_transferAll A _ _ _)

theorem frame_mplsElectSurplus (s : St α) (hwq : List (Cand α)) (hv : α) : Frame s (mplsElectSurplus A s hwq hv).1 := by
  unfold mplsElectSurplus
  split
  · rename_i s3 hc heq
    have h1 : Frame s s3 := by
      have := frame_breakTie A s (hwq.filter (fun c => A.eq c.vote hv)) "Break tie (largest surplus)"
      rw [heq] at this; exact this
    refine h1.trans (Frame.trans ?_ (frame_mplsLogTransfer A _ _ _))
    exact (frame_elect A _ _ _ _).trans ((frame_transferAll A _ _ _).trans (frame_setVote _ _ _))
  · rename_i s3 heq
    have := frame_breakTie A s (hwq.filter (fun c => A.eq c.vote hv)) "Break tie (largest surplus)"
    rw [heq] at this; exact this

theorem frame_mplsDefeatLow (s : St α) : Frame s (mplsDefeatLow A s) := by
  unfold mplsDefeatLow
  split
  · split
    · exact Frame.refl _
    · rename_i lv _
      split
      · rename_i s3 lc heq
        have h1 : Frame s s3 := by
          have := frame_breakTie A s (s.hopeful.filter (fun c => A.eq c.vote lv)) "Break tie (defeat low candidate)"
          rw [heq] at this; exact this
        refine h1.trans ((frame_defeat A s3 lc.cid "Defeat low candidate").trans ?_)
        unfold mplsAfterDefeatLow
        split
        · exact ((frame_transferAll A _ _ _).trans (frame_setVote _ _ _)).trans (frame_mplsLogTransfer A _ _ _)
        · exact Frame.refl _
      · rename_i s3 heq
        have := frame_breakTie A s (s.hopeful.filter (fun c => A.eq c.vote lv)) "Break tie (defeat low candidate)"
        rw [heq] at this; exact this
  · exact Frame.refl _

theorem frame_mplsBody (s : St α) : Frame s (mplsBody A s).1 := by
  have hcv : Frame s (mplsCountVotes A s) := by
    unfold mplsCountVotes; exact (frame_setSurplus _ _).trans (frame_logAct A _ _ _ _)
  unfold mplsBody
  split
  · unfold mplsElectThreshold
    exact hcv.trans (frame_foldl _ (fun (acc : St α) (c : Cand α) => frame_elect A acc c.cid _ _) _ _)
  · refine hcv.trans ((frame_newRound A _).trans ?_)
    unfold mplsRound
    split
    · exact frame_mplsDefeatMany A _ _
    · split
      · exact frame_mplsElectSurplus A _ _ _
      · unfold mplsFinish
        split <;> exact frame_mplsDefeatLow A _

theorem frame_mplsEpilogue (s : St α) : Frame s (mplsEpilogue A s) := by
  unfold mplsEpilogue
  refine Frame.trans ?_ (frame_foldl _ (fun (acc : St α) (c : Cand α) => frame_defeat A acc c.cid _) _ _)
  split
  · exact frame_foldl _ (fun (acc : St α) (c : Cand α) => frame_elect A acc c.cid _ _) _ _
  · exact Frame.refl _

theorem mplsInit_seats (s0 : St α) : (mplsInit A s0).seats = s0.seats := by
  unfold mplsInit
  rw [(frame_newRound A _).2.1]
  show (firstCount A _).seats = _
  rw [firstCount_eq, foldl_fcStep_seats]; rfl

theorem mpls_seats (s0 t : St α) (h : mplsCount A s0 = some t) : t.seats = s0.seats := by
  unfold mplsCount at h
  cases hl : loopN (fun _ => true) (mplsBody A) (2 * s0.cands.length + 4) (mplsInit A s0) with
  | none => rw [hl] at h; cases h
  | some s4 =>
    rw [hl] at h
    have ht : t = mplsEpilogue A s4 := (Option.some.inj h).symm
    rw [ht, (frame_mplsEpilogue A s4).2.1, (loopN_frame _ _ (frame_mplsBody A) _ _ _ hl).2.1]
    exact mplsInit_seats A s0

end Droop
