import DroopProofs.RunCommon
import DroopProofs.RunScot

/-! # CfER (cfer, cfer-batch) at run level: termination, seats, forward-only record (C01, C09) -/
namespace Droop
variable {α : Type} [CommRing α] [LinearOrder α] [IsStrictOrderedRing α] (A : Arith α)

/-! ## all pending surpluses in one round -/
theorem cferSurplusOne_eq {s : St α} (hwf : s.WF) (c : Cand α) (x : Cand α) (hxm : x ∈ s.cands) (hxc : x.cid = c.cid) :
    cferSurplusOne A s c = transferSurplus A (s.unpendLog A c.cid "Transfer surplus") x (rewMulDiv A) "Surplus transferred" := by
  unfold cferSurplusOne
  cases hf : s.cand? c.cid with
  | none =>
    exfalso
    have := (cand?_isSome_iff s c.cid).2 ⟨x, hxm, hxc⟩
    rw [hf] at this; cases this
  | some cur =>
    obtain ⟨hcm, hcc⟩ := cand?_mem hf
    have hcx : cur = x := nodup_cid_eq hwf hcm hxm (hcc.trans hxc.symm)
    rw [hcx]

theorem cferSurplusOne_spec (hA : LawfulArith A) {s : St α} (hE : InvE A s) (hM : Mon s) (c : Cand α)
    (hp : ∃ x ∈ s.cands, x.cid = c.cid ∧ x.st = .elected ∧ x.pending = true) :
    InvE A (cferSurplusOne A s c) ∧ Mon (cferSurplusOne A s c)
    ∧ (cferSurplusOne A s c).skel = (s.unpendLog A c.cid "Transfer surplus").skel
    ∧ Frame s (cferSurplusOne A s c) ∧ Ext s (cferSurplusOne A s c)
    ∧ mu (cferSurplusOne A s c) < mu s ∧ sumHE (cferSurplusOne A s c) = sumHE s := by
  obtain ⟨hI1, hsk⟩ := hE.1.cferSurplusOne A hA c hp
  obtain ⟨x, hxm, hxc, hxe, hxp⟩ := hp
  have huniq : ∀ y ∈ s.cands, y.cid = c.cid → y = x := fun y hy hyc => nodup_cid_eq hE.1.wf hy hxm (hyc.trans hxc.symm)
  have heq := cferSurplusOne_eq A hE.1.wf c x hxm hxc
  refine ⟨⟨hI1, ?_⟩, ?_, hsk, ?_, ?_, ?_, ?_⟩
  · rw [heq]
    have hq : (s.unpendLog A c.cid "Transfer surplus").quota ≤ x.vote := by
      unfold St.unpendLog; rw [logAct_quota]
      exact hE.1.pq x hxm hxe hxp
    exact EHQ.transferSurplus A hA (rewMulDiv A) (rewMulDiv_law A hA) (hE.1.unpendLog A c.cid _)
      (EHQ.unpendLog A hE.2 c.cid _) x _ hq
  · rw [heq]
    apply Mon.transferSurplus
    apply hM.unpendLog A
    intro y hy hyc; rw [huniq y hy hyc]; exact hxe
  · rw [heq]; exact (frame_unpendLog A _ _ _).trans (frame_transferSurplus A _ _ _ _)
  · rw [heq]; exact (ext_unpendLog A _ _ _).trans (ext_transferSurplus A _ _ _ _)
  · rw [mu_of_skel hsk, ← hxc]
    exact mu_unpendLog_lt A s x _ hE.1.wf hxm hxe hxp
  · rw [sumHE_of_skel hsk]
    have := counts_unpendLog A s c.cid "Transfer surplus"
    unfold sumHE; omega

theorem foldSurplus_spec (hA : LawfulArith A) (rem : List (Cand α)) {s : St α} (hE : InvE A s) (hM : Mon s)
    (hnd : (rem.map (·.cid)).Nodup) (hp : StillPending s rem) :
    InvE A (rem.foldl (cferSurplusOne A) s) ∧ Mon (rem.foldl (cferSurplusOne A) s)
    ∧ Frame s (rem.foldl (cferSurplusOne A) s) ∧ Ext s (rem.foldl (cferSurplusOne A) s)
    ∧ mu (rem.foldl (cferSurplusOne A) s) + rem.length ≤ mu s
    ∧ sumHE (rem.foldl (cferSurplusOne A) s) = sumHE s := by
  induction rem generalizing s with
  | nil => exact ⟨hE, hM, Frame.refl s, Ext.refl s, by simp, rfl⟩
  | cons c cs ih =>
    simp only [List.foldl_cons]
    simp only [List.map_cons, List.nodup_cons, List.mem_map, not_exists, not_and] at hnd
    obtain ⟨a1, a2, a3, a4, a5, a6, a7⟩ := cferSurplusOne_spec A hA hE hM c (hp c (by simp))
    obtain ⟨b1, b2, b4, b5, b6, b7⟩ := ih a1 a2 hnd.2
      (stillPending_step A c cs a3 (fun c' hc' e => hnd.1 c' hc' e) (fun c' hc' => hp c' (by simp [hc'])))
    refine ⟨b1, b2, a4.trans b4, a5.trans b5, ?_, b7.trans a7⟩
    simp only [List.length_cons]; omega

theorem cferSurplusAll_spec (hA : LawfulArith A) {s : St α} (hE : InvE A s) (hM : Mon s) :
    InvE A (cferSurplusAll A s) ∧ Mon (cferSurplusAll A s) ∧ Frame s (cferSurplusAll A s) ∧ Ext s (cferSurplusAll A s)
    ∧ mu (cferSurplusAll A s) + s.pendingL.length ≤ mu s ∧ sumHE (cferSurplusAll A s) = sumHE s := by
  unfold cferSurplusAll
  apply foldSurplus_spec A hA s.pendingL hE hM (pendingL_cids_nodup hE.1.wf)
  intro c hc
  obtain ⟨a, b, d⟩ := mem_pendingL.1 hc
  exact ⟨c, a, rfl, b, d⟩

/-! ## what a round that ends the count leaves behind -/

/-- the count is over: the conservation bundle and a forward-only record hold, and unless the crash flag is up exactly
    `seats` candidates are elected and nobody is left hopeful -/
def Done (t : St α) : Prop := Good A t ∧ (t.crash = none → nEl t = t.seats ∧ nHop t = 0)

theorem Done.of_crash {t : St α} (hg : Good A t) (hc : t.crash.isSome = true) : Done A t :=
  ⟨hg, fun h => by rw [h] at hc; simp at hc⟩

theorem cferElectAll_spec {s : St α} (hg : Good A s) (h0 : nEl s = 0) (hle : nHop s ≤ s.seats) (hge : s.seats ≤ nHop s) :
    Done A (cferElectAll A s).1 ∧ Ext s (cferElectAll A s).1 := by
  unfold cferElectAll
  dsimp only
  obtain ⟨g, a, b, f, x, _, _⟩ := foldElectAll A hg s.hopeful "Elect all" (hopeful_cids_nodup hg.1.wf)
    (fun w hw => mem_hopeful.1 hw)
  refine ⟨⟨g, fun _ => ⟨?_, ?_⟩⟩, x⟩
  · show nEl _ = St.seats _
    rw [b, f.2.1]; unfold nHop at *; omega
  · unfold nHop at *; omega

theorem cferSeatsFull_spec {s : St α} (hg : Good A s) (hfull : nEl s = s.seats) :
    Done A (cferSeatsFull A s).1 ∧ Ext s (cferSeatsFull A s).1 := by
  unfold cferSeatsFull
  have hg5 := hg.foldUnpend A
  obtain ⟨u1, u2, u3⟩ := counts_foldUnpend s.pendingL s
  have hx5 : Ext s (s.pendingL.foldl (fun acc c => acc.unpendSilent c.cid) s) :=
    ext_foldl (fun (acc : St α) (c : Cand α) => acc.unpendSilent c.cid) (fun t c => ext_unpendSilent t c.cid) _ _
  dsimp only
  generalize s.pendingL.foldl (fun acc c => acc.unpendSilent c.cid) s = s5 at *
  obtain ⟨g, a, b, f, x, _, _⟩ := foldDefeatAll A hg5 s5.hopeful "Defeat remaining" (hopeful_cids_nodup hg5.1.wf)
    (fun w hw => mem_hopeful.1 hw)
  refine ⟨⟨g, fun _ => ⟨?_, ?_⟩⟩, hx5.trans x⟩
  · show nEl _ = St.seats _
    rw [b, f.2.1, u2, u3]; exact hfull
  · unfold nHop at *; omega

/-- `cferFinishDefeats`, first branch: everybody left is elected -/
theorem cferFinish_brk_spec {s : St α} (hg : Good A s) (hle : nHop s + nEl s ≤ s.seats) (hge : s.seats ≤ sumHE s) :
    let t := (s.pendingL.foldl (fun acc c => acc.elect A c.cid "Elect pending" false) s).hopeful.foldl
        (fun acc c => acc.elect A c.cid "Elect remaining" false)
        (s.pendingL.foldl (fun acc c => acc.elect A c.cid "Elect pending" false) s)
    Done A t ∧ Ext s t := by
  obtain ⟨g1, a1, b1, f1, x1, _⟩ := foldElectNP_elected A hg s.pendingL "Elect pending" (by
    intro c hc x hx hxc
    obtain ⟨hcm, hce, _⟩ := mem_pendingL.1 hc
    rw [nodup_cid_eq hg.1.wf hx hcm hxc]; exact hce)
  dsimp only
  generalize s.pendingL.foldl (fun acc c => acc.elect A c.cid "Elect pending" false) s = s1 at *
  obtain ⟨g, a, b, f, x, _, _⟩ := foldElectAll A g1 s1.hopeful "Elect remaining" (hopeful_cids_nodup g1.1.wf)
    (fun w hw => mem_hopeful.1 hw)
  refine ⟨⟨g, fun _ => ⟨?_, ?_⟩⟩, x1.trans x⟩
  · show nEl _ = St.seats _
    rw [b, f.2.1, f1.2.1]; unfold sumHE at hge; unfold nHop at *; omega
  · unfold nHop at *; omega

/-! ## exclusions -/
theorem EHQ.foldDefeat {s : St α} (h : ElectedHoldQuota s) (ws : List (Cand α)) (verb : String) :
    ElectedHoldQuota (ws.foldl (fun acc c => acc.defeat A c.cid verb) s) := by
  induction ws generalizing s with
  | nil => exact h
  | cons w ws ih => simp only [List.foldl_cons]; exact ih (EHQ.defeat A h w.cid verb)

/-- "for c in sorted(defeats): c.defeat(msg)" over distinct hopeful candidates: what the transfer that follows needs -/
theorem defeatMany_spec {s : St α} (hE : InvE A s) (hM : Mon s) (ws ws' : List (Cand α)) (verb : String)
    (hperm : ws'.Perm ws) (hnd : (ws.map (·.cid)).Nodup) (hw : ∀ w ∈ ws, w ∈ s.hopeful) :
    let t := ws'.foldl (fun acc c => acc.defeat A c.cid verb) s
    InvE A t ∧ Mon t ∧ JustDefeated A t (ws.map (·.cid))
    ∧ (∀ cid ∈ ws.map (·.cid), ∀ c ∈ t.cands, c.cid = cid → c.st ≠ .elected)
    ∧ nHop t + ws.length = nHop s ∧ nEl t = nEl s ∧ Frame s t ∧ Ext s t ∧ t.crash = s.crash
    ∧ mu t + ws.length ≤ mu s := by
  have hnd' : (ws'.map (·.cid)).Nodup := (hperm.map _).nodup_iff.2 hnd
  have hw' : ∀ w ∈ ws', w ∈ s.cands ∧ w.st = .hopeful := fun w hw1 => mem_hopeful.1 (hw w (hperm.subset hw1))
  obtain ⟨g, a, b, f, x, c, m⟩ := foldDefeatAll A ⟨hE.1, hM⟩ ws' verb hnd' hw'
  have hj := justDefeated_foldDefeat A hE.1 ws ws' verb hperm hnd hw
  have hlen : ws'.length = ws.length := hperm.length_eq
  refine ⟨⟨g.1, EHQ.foldDefeat A hE.2 ws' verb⟩, g.2, hj, ?_, by omega, b, f, x, c, by omega⟩
  intro cid hcid c' hc' hcc
  obtain ⟨w, hwm, rfl⟩ := List.mem_map.1 hcid
  have hmem := foldDefeat_mem A ws' verb s hnd' (fun w' hw1 => (hw' w' hw1).1) w (hperm.symm.subset hwm)
  have : c' = ({ w with st := .defeated } : Cand α) := nodup_cid_eq g.1.wf hc' hmem hcc
  rw [this]; simp

theorem cferFinishDefeats_spec (hA : LawfulArith A) {s : St α} (hE : InvE A s) (hM : Mon s) (defeats : List (Cand α))
    (hj : JustDefeated A s (defeats.map (·.cid)))
    (hne : ∀ cid ∈ defeats.map (·.cid), ∀ c ∈ s.cands, c.cid = cid → c.st ≠ .elected)
    (hge : s.seats ≤ sumHE s) :
    Ext s (cferFinishDefeats A s defeats).1
    ∧ ((cferFinishDefeats A s defeats).2 = .brk → Done A (cferFinishDefeats A s defeats).1)
    ∧ ((cferFinishDefeats A s defeats).2 = .cont →
        InvE A (cferFinishDefeats A s defeats).1 ∧ Mon (cferFinishDefeats A s defeats).1
        ∧ Frame s (cferFinishDefeats A s defeats).1 ∧ mu (cferFinishDefeats A s defeats).1 = mu s
        ∧ sumHE (cferFinishDefeats A s defeats).1 = sumHE s ∧ s.seats < sumHE s) := by
  have hI := hE.1.cferFinishDefeats A hA defeats hj
  unfold cferFinishDefeats at hI ⊢
  by_cases hle : s.hopeful.length + s.elected.length ≤ s.seats
  · rw [if_pos hle] at hI ⊢
    obtain ⟨hd, hx⟩ := cferFinish_brk_spec A ⟨hE.1, hM⟩ hle hge
    refine ⟨hx, fun _ => hd, ?_⟩
    intro hc; cases hc
  · rw [if_neg hle] at hI ⊢
    refine ⟨ext_transferDefeated A _ _ _, ?_, ?_⟩
    · intro hc; cases hc
    intro _
    refine ⟨⟨hI, ?_⟩, ?_, ?_, ?_, ?_, ?_⟩
    · exact EHQ.transferDefeated A hA hE.1 hE.2 _ _ hne
    · exact Mon.transferDefeated A hM _ _
    · exact frame_transferDefeated A _ _ _
    · exact mu_transferDefeated A _ _ _
    · exact sumHE_transferDefeated A _ _ _
    · unfold sumHE nHop nEl; omega

end Droop
