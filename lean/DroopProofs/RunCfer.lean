import DroopProofs.RunCommon
import DroopProofs.RunScot

/-! # CfER (cfer, cfer-batch) at run level: termination, seats, forward-only record (C01, C09) -/
namespace Droop
variable {α : Type} [CommRing α] [LinearOrder α] [IsStrictOrderedRing α] (A : Arith α)

/-! ## all pending surpluses in one round -/
theorem cferSurplusOne_eq {s : St α} (hwf : s.WF) (c : Cand α) (x : Cand α) (hxm : x ∈ s.cands) (hxc : x.cid = c.cid) :
    cferSurplusOne A s c = transferSurplus A (s.unpendLog A c.cid "Transfer surplus") x (rewMulDiv A) "Surplus transferred" := by
  unfold cferSurplusOne
  cases hf : s.cand? c.cid with
  | none =>
    exfalso
    have := (cand?_isSome_iff s c.cid).2 ⟨x, hxm, hxc⟩
    rw [hf] at this; cases this
  | some cur =>
    obtain ⟨hcm, hcc⟩ := cand?_mem hf
    have hcx : cur = x := nodup_cid_eq hwf hcm hxm (hcc.trans hxc.symm)
    rw [hcx]

theorem cferSurplusOne_spec (hA : LawfulArith A) {s : St α} (hE : InvE A s) (hM : Mon s) (c : Cand α)
    (hp : ∃ x ∈ s.cands, x.cid = c.cid ∧ x.st = .elected ∧ x.pending = true) :
    InvE A (cferSurplusOne A s c) ∧ Mon (cferSurplusOne A s c)
    ∧ (cferSurplusOne A s c).skel = (s.unpendLog A c.cid "Transfer surplus").skel
    ∧ Frame s (cferSurplusOne A s c) ∧ Ext s (cferSurplusOne A s c)
    ∧ mu (cferSurplusOne A s c) < mu s ∧ sumHE (cferSurplusOne A s c) = sumHE s := by
  obtain ⟨hI1, hsk⟩ := hE.1.cferSurplusOne A hA c hp
  obtain ⟨x, hxm, hxc, hxe, hxp⟩ := hp
  have huniq : ∀ y ∈ s.cands, y.cid = c.cid → y = x := fun y hy hyc => nodup_cid_eq hE.1.wf hy hxm (hyc.trans hxc.symm)
  have heq := cferSurplusOne_eq A hE.1.wf c x hxm hxc
  refine ⟨⟨hI1, ?_⟩, ?_, hsk, ?_, ?_, ?_, ?_⟩
  · rw [heq]
    have hq : (s.unpendLog A c.cid "Transfer surplus").quota ≤ x.vote := by
      unfold St.unpendLog; rw [logAct_quota]
      exact hE.1.pq x hxm hxe hxp
    exact EHQ.transferSurplus A hA (rewMulDiv A) (rewMulDiv_law A hA) (hE.1.unpendLog A c.cid _)
      (EHQ.unpendLog A hE.2 c.cid _) x _ hq
  · rw [heq]
    apply Mon.transferSurplus
    apply hM.unpendLog A
    intro y hy hyc; rw [huniq y hy hyc]; exact hxe
  · rw [heq]; exact (frame_unpendLog A _ _ _).trans (frame_transferSurplus A _ _ _ _)
  · rw [heq]; exact (ext_unpendLog A _ _ _).trans (ext_transferSurplus A _ _ _ _)
  · rw [mu_of_skel hsk, ← hxc]
    exact mu_unpendLog_lt A s x _ hE.1.wf hxm hxe hxp
  · rw [sumHE_of_skel hsk]
    have := counts_unpendLog A s c.cid "Transfer surplus"
    unfold sumHE; omega

theorem foldSurplus_spec (hA : LawfulArith A) (rem : List (Cand α)) {s : St α} (hE : InvE A s) (hM : Mon s)
    (hnd : (rem.map (·.cid)).Nodup) (hp : StillPending s rem) :
    InvE A (rem.foldl (cferSurplusOne A) s) ∧ Mon (rem.foldl (cferSurplusOne A) s)
    ∧ Frame s (rem.foldl (cferSurplusOne A) s) ∧ Ext s (rem.foldl (cferSurplusOne A) s)
    ∧ mu (rem.foldl (cferSurplusOne A) s) + rem.length ≤ mu s
    ∧ sumHE (rem.foldl (cferSurplusOne A) s) = sumHE s := by
  induction rem generalizing s with
  | nil => exact ⟨hE, hM, Frame.refl s, Ext.refl s, by simp, rfl⟩
  | cons c cs ih =>
    simp only [List.foldl_cons]
    simp only [List.map_cons, List.nodup_cons, List.mem_map, not_exists, not_and] at hnd
    obtain ⟨a1, a2, a3, a4, a5, a6, a7⟩ := cferSurplusOne_spec A hA hE hM c (hp c (by simp))
    obtain ⟨b1, b2, b4, b5, b6, b7⟩ := ih a1 a2 hnd.2
      (stillPending_step A c cs a3 (fun c' hc' e => hnd.1 c' hc' e) (fun c' hc' => hp c' (by simp [hc'])))
    refine ⟨b1, b2, a4.trans b4, a5.trans b5, ?_, b7.trans a7⟩
    simp only [List.length_cons]; omega

theorem cferSurplusAll_spec (hA : LawfulArith A) {s : St α} (hE : InvE A s) (hM : Mon s) :
    InvE A (cferSurplusAll A s) ∧ Mon (cferSurplusAll A s) ∧ Frame s (cferSurplusAll A s) ∧ Ext s (cferSurplusAll A s)
    ∧ mu (cferSurplusAll A s) + s.pendingL.length ≤ mu s ∧ sumHE (cferSurplusAll A s) = sumHE s := by
  unfold cferSurplusAll
  apply foldSurplus_spec A hA s.pendingL hE hM (pendingL_cids_nodup hE.1.wf)
  intro c hc
  obtain ⟨a, b, d⟩ := mem_pendingL.1 hc
  exact ⟨c, a, rfl, b, d⟩

/-! ## what a round that ends the count leaves behind -/

/-- the count is over: the conservation bundle and a forward-only record hold, and unless the crash flag is up exactly
    `seats` candidates are elected and nobody is left hopeful -/
def Done (t : St α) : Prop := Good A t ∧ (t.crash = none → nEl t = t.seats ∧ nHop t = 0)

theorem Done.of_crash {t : St α} (hg : Good A t) (hc : t.crash.isSome = true) : Done A t :=
  ⟨hg, fun h => by rw [h] at hc; simp at hc⟩

theorem cferElectAll_spec {s : St α} (hg : Good A s) (h0 : nEl s = 0) (hle : nHop s ≤ s.seats) (hge : s.seats ≤ nHop s) :
    Done A (cferElectAll A s).1 ∧ Ext s (cferElectAll A s).1 := by
  unfold cferElectAll
  dsimp only
  obtain ⟨g, a, b, f, x, _, _⟩ := foldElectAll A hg s.hopeful "Elect all" (hopeful_cids_nodup hg.1.wf)
    (fun w hw => mem_hopeful.1 hw)
  refine ⟨⟨g, fun _ => ⟨?_, ?_⟩⟩, x⟩
  · show nEl _ = St.seats _
    rw [b, f.2.1]; unfold nHop at *; omega
  · unfold nHop at *; omega

theorem cferSeatsFull_spec {s : St α} (hg : Good A s) (hfull : nEl s = s.seats) :
    Done A (cferSeatsFull A s).1 ∧ Ext s (cferSeatsFull A s).1 := by
  unfold cferSeatsFull
  have hg5 := hg.foldUnpend A
  obtain ⟨u1, u2, u3⟩ := counts_foldUnpend s.pendingL s
  have hx5 : Ext s (s.pendingL.foldl (fun acc c => acc.unpendSilent c.cid) s) :=
    ext_foldl (fun (acc : St α) (c : Cand α) => acc.unpendSilent c.cid) (fun t c => ext_unpendSilent t c.cid) _ _
  dsimp only
  generalize s.pendingL.foldl (fun acc c => acc.unpendSilent c.cid) s = s5 at *
  obtain ⟨g, a, b, f, x, _, _⟩ := foldDefeatAll A hg5 s5.hopeful "Defeat remaining" (hopeful_cids_nodup hg5.1.wf)
    (fun w hw => mem_hopeful.1 hw)
  refine ⟨⟨g, fun _ => ⟨?_, ?_⟩⟩, hx5.trans x⟩
  · show nEl _ = St.seats _
    rw [b, f.2.1, u2, u3]; exact hfull
  · unfold nHop at *; omega

/-- `cferFinishDefeats`, first branch: everybody left is elected -/
theorem cferFinish_brk_spec {s : St α} (hg : Good A s) (hle : nHop s + nEl s ≤ s.seats) (hge : s.seats ≤ sumHE s) :
    let t := (s.pendingL.foldl (fun acc c => acc.elect A c.cid "Elect pending" false) s).hopeful.foldl
        (fun acc c => acc.elect A c.cid "Elect remaining" false)
        (s.pendingL.foldl (fun acc c => acc.elect A c.cid "Elect pending" false) s)
    Done A t ∧ Ext s t := by
  obtain ⟨g1, a1, b1, f1, x1, _⟩ := foldElectNP_elected A hg s.pendingL "Elect pending" (by
    intro c hc x hx hxc
    obtain ⟨hcm, hce, _⟩ := mem_pendingL.1 hc
    rw [nodup_cid_eq hg.1.wf hx hcm hxc]; exact hce)
  dsimp only
  generalize s.pendingL.foldl (fun acc c => acc.elect A c.cid "Elect pending" false) s = s1 at *
  obtain ⟨g, a, b, f, x, _, _⟩ := foldElectAll A g1 s1.hopeful "Elect remaining" (hopeful_cids_nodup g1.1.wf)
    (fun w hw => mem_hopeful.1 hw)
  refine ⟨⟨g, fun _ => ⟨?_, ?_⟩⟩, x1.trans x⟩
  · show nEl _ = St.seats _
    rw [b, f.2.1, f1.2.1]; unfold sumHE at hge; unfold nHop at *; omega
  · unfold nHop at *; omega

/-! ## exclusions -/
theorem EHQ.foldDefeat {s : St α} (h : ElectedHoldQuota s) (ws : List (Cand α)) (verb : String) :
    ElectedHoldQuota (ws.foldl (fun acc c => acc.defeat A c.cid verb) s) := by
  induction ws generalizing s with
  | nil => exact h
  | cons w ws ih => simp only [List.foldl_cons]; exact ih (EHQ.defeat A h w.cid verb)

/-- "for c in sorted(defeats): c.defeat(msg)" over distinct hopeful candidates: what the transfer that follows needs -/
theorem defeatMany_spec {s : St α} (hE : InvE A s) (hM : Mon s) (ws ws' : List (Cand α)) (verb : String)
    (hperm : ws'.Perm ws) (hnd : (ws.map (·.cid)).Nodup) (hw : ∀ w ∈ ws, w ∈ s.hopeful) :
    let t := ws'.foldl (fun acc c => acc.defeat A c.cid verb) s
    InvE A t ∧ Mon t ∧ JustDefeated A t (ws.map (·.cid))
    ∧ (∀ cid ∈ ws.map (·.cid), ∀ c ∈ t.cands, c.cid = cid → c.st ≠ .elected)
    ∧ nHop t + ws.length = nHop s ∧ nEl t = nEl s ∧ Frame s t ∧ Ext s t ∧ t.crash = s.crash
    ∧ mu t + ws.length ≤ mu s := by
  have hnd' : (ws'.map (·.cid)).Nodup := (hperm.map _).nodup_iff.2 hnd
  have hw' : ∀ w ∈ ws', w ∈ s.cands ∧ w.st = .hopeful := fun w hw1 => mem_hopeful.1 (hw w (hperm.subset hw1))
  obtain ⟨g, a, b, f, x, c, m⟩ := foldDefeatAll A ⟨hE.1, hM⟩ ws' verb hnd' hw'
  have hj := justDefeated_foldDefeat A hE.1 ws ws' verb hperm hnd hw
  have hlen : ws'.length = ws.length := hperm.length_eq
  refine ⟨⟨g.1, EHQ.foldDefeat A hE.2 ws' verb⟩, g.2, hj, ?_, by omega, b, f, x, c, by omega⟩
  intro cid hcid c' hc' hcc
  obtain ⟨w, hwm, rfl⟩ := List.mem_map.1 hcid
  have hmem := foldDefeat_mem A ws' verb s hnd' (fun w' hw1 => (hw' w' hw1).1) w (hperm.symm.subset hwm)
  have : c' = ({ w with st := .defeated } : Cand α) := nodup_cid_eq g.1.wf hc' hmem hcc
  rw [this]; simp

theorem cferFinishDefeats_spec (hA : LawfulArith A) {s : St α} (hE : InvE A s) (hM : Mon s) (defeats : List (Cand α))
    (hj : JustDefeated A s (defeats.map (·.cid)))
    (hne : ∀ cid ∈ defeats.map (·.cid), ∀ c ∈ s.cands, c.cid = cid → c.st ≠ .elected)
    (hge : s.seats ≤ sumHE s) :
    Ext s (cferFinishDefeats A s defeats).1
    ∧ ((cferFinishDefeats A s defeats).2 = .brk → Done A (cferFinishDefeats A s defeats).1)
    ∧ ((cferFinishDefeats A s defeats).2 = .cont →
        InvE A (cferFinishDefeats A s defeats).1 ∧ Mon (cferFinishDefeats A s defeats).1
        ∧ Frame s (cferFinishDefeats A s defeats).1 ∧ mu (cferFinishDefeats A s defeats).1 = mu s
        ∧ sumHE (cferFinishDefeats A s defeats).1 = sumHE s ∧ s.seats < sumHE s) := by
  have hI := hE.1.cferFinishDefeats A hA defeats hj
  unfold cferFinishDefeats at hI ⊢
  by_cases hle : s.hopeful.length + s.elected.length ≤ s.seats
  · rw [if_pos hle] at hI ⊢
    obtain ⟨hd, hx⟩ := cferFinish_brk_spec A ⟨hE.1, hM⟩ hle hge
    refine ⟨hx, fun _ => hd, ?_⟩
    intro hc; cases hc
  · rw [if_neg hle] at hI ⊢
    refine ⟨ext_transferDefeated A _ _ _, ?_, ?_⟩
    · intro hc; cases hc
    intro _
    refine ⟨⟨hI, ?_⟩, ?_, ?_, ?_, ?_, ?_⟩
    · exact EHQ.transferDefeated A hA hE.1 hE.2 _ _ hne
    · exact Mon.transferDefeated A hM _ _
    · exact frame_transferDefeated A _ _ _
    · exact mu_transferDefeated A _ _ _
    · exact sumHE_transferDefeated A _ _ _
    · unfold sumHE nHop nEl; omega

/-! ## the CfER batch leaves enough candidates -/
theorem cferBatch_go_enough (s : St α) (surplus : α) (cands : List (Cand α)) (nE : Nat) (top : Option (Cand α)) :
    ∀ (fuel t : Nat) (best : List (Cand α)),
      (best = [] ∨ (s.seats ≤ (cands.length - best.length) + nE ∧ best.length ≤ cands.length)) →
      (cferBatch.go A s surplus cands nE top t fuel best = []
        ∨ (s.seats ≤ (cands.length - (cferBatch.go A s surplus cands nE top t fuel best).length) + nE
            ∧ (cferBatch.go A s surplus cands nE top t fuel best).length ≤ cands.length)) := by
  intro fuel
  induction fuel with
  | zero => intro t best hb; unfold cferBatch.go; exact hb
  | succ n ih =>
    intro t best hb
    unfold cferBatch.go
    dsimp only
    split
    · exact hb
    · rename_i hlt
      split
      · split
        · exact hb
        · rename_i hen
          split
          · exact ih _ _ hb
          · split
            · apply ih
              right
              have hl : (cands.take (t + 1)).length = t + 1 := by
                rw [List.length_take]; omega
              rw [hl]
              omega
            · exact ih _ _ hb
      · exact hb

theorem cferBatch_enough (s : St α) (hne : cferBatch A s ≠ []) :
    s.seats ≤ (nHop s - (cferBatch A s).length) + nEl s ∧ (cferBatch A s).length ≤ nHop s := by
  have hlen : (byVote A false s.hopeful).length = nHop s := (pySorted_perm _ _ _).length_eq
  have := cferBatch_go_enough A s (A.sum (s.pendingL.map (fun c => A.sub c.vote s.quota))) (byVote A false s.hopeful)
    s.elected.length (byVote A false s.hopeful).getLast? (byVote A false s.hopeful).length 0 [] (Or.inl rfl)
  unfold cferBatch at hne ⊢
  dsimp only at hne ⊢
  rcases this with h | h
  · exact absurd h hne
  · obtain ⟨h1, h2⟩ := h
    unfold nEl
    constructor <;> omega

/-! ## one round -/

/-- what the part of a round after the election step hands back, relative to the state `s` it started from -/
def RoundOK (s : St α) (r : St α × Flow) : Prop :=
  Ext s r.1 ∧ (r.2 = .brk → Done A r.1)
  ∧ (r.2 = .cont → InvE A r.1 ∧ Mon r.1 ∧ Frame s r.1 ∧ r.1.seats < sumHE r.1
      ∧ (mu r.1 < mu s ∨ r.1.crash.isSome = true))

theorem cferDefeatBatch_spec (hA : LawfulArith A) {s : St α} (hE : InvE A s) (hM : Mon s) (defeats : List (Cand α))
    (hsub : ∀ w ∈ defeats, w ∈ s.hopeful) (hnd : (defeats.map (·.cid)).Nodup) (hne : defeats ≠ [])
    (hen : s.seats ≤ (nHop s - defeats.length) + nEl s) (hlen : defeats.length ≤ nHop s) :
    RoundOK A s (cferDefeatBatch A s defeats) := by
  unfold cferDefeatBatch
  obtain ⟨a1, a2, a3, a4, a5, a6, a7, a8, _, a10⟩ := defeatMany_spec A hE hM defeats (byBallotOrder defeats) "Defeat batch"
    (pySorted_perm _ _ _) hnd hsub
  generalize (byBallotOrder defeats).foldl (fun acc c => acc.defeat A c.cid "Defeat batch") s = s1 at *
  have hge : s1.seats ≤ sumHE s1 := by rw [a7.2.1]; unfold sumHE; omega
  obtain ⟨b1, b2, b3⟩ := cferFinishDefeats_spec A hA a1 a2 defeats a3 a4 hge
  refine ⟨a8.trans b1, b2, ?_⟩
  intro hc
  obtain ⟨c1, c2, c3, c4, c5, c6⟩ := b3 hc
  refine ⟨c1, c2, a7.trans c3, ?_, Or.inl ?_⟩
  · rw [c3.2.1, c5]; exact c6
  · have : 0 < defeats.length := List.length_pos_of_ne_nil hne
    rw [c4]; omega

theorem cferDefeatLow_cases (s : St α) :
    (minVoteOf A s.hopeful = none ∧ cferDefeatLow A s = (s.setCrash "ValueError", .brk)) ∨
    ∃ tied : List (Cand α), (∀ c ∈ tied, c ∈ s.hopeful) ∧
      (((breakTie A s tied "Break tie (defeat)").2 = none
          ∧ cferDefeatLow A s = ((breakTie A s tied "Break tie (defeat)").1, .brk)) ∨
       (∃ lc, (breakTie A s tied "Break tie (defeat)").2 = some lc
          ∧ cferDefeatLow A s = cferFinishDefeats A ((breakTie A s tied "Break tie (defeat)").1.defeat A lc.cid "Defeat") [lc])) := by
  unfold cferDefeatLow
  cases hm : minVoteOf A s.hopeful with
  | none => left; exact ⟨rfl, rfl⟩
  | some lv =>
    right
    refine ⟨s.hopeful.filter (fun c => A.eq c.vote lv), fun c hc => (List.mem_filter.1 hc).1, ?_⟩
    dsimp only
    cases hb : breakTie A s (s.hopeful.filter (fun c => A.eq c.vote lv)) "Break tie (defeat)" with
    | mk s1 oc =>
      cases oc with
      | none => left; exact ⟨rfl, rfl⟩
      | some lc => right; exact ⟨lc, rfl, rfl⟩

theorem cferDefeatLow_spec (hA : LawfulArith A) {s : St α} (hE : InvE A s) (hM : Mon s) (hgt : s.seats < sumHE s) :
    RoundOK A s (cferDefeatLow A s) := by
  rcases cferDefeatLow_cases A s with ⟨_, e⟩ | ⟨tied, hsub, ⟨hb, e⟩ | ⟨lc, hb, e⟩⟩
  · rw [e]
    refine ⟨ext_setCrash s _, fun _ => Done.of_crash A ⟨hE.1.setCrash A _, hM.setCrash _⟩ (setCrash_isSome s _), ?_⟩
    intro hc; cases hc
  · rw [e]
    refine ⟨ext_breakTie A s _ _, fun _ => Done.of_crash A ⟨hE.1.breakTie A _ _, hM.breakTie A _ _⟩
      (breakTie_none_crash A s tied _ hb), ?_⟩
    intro hc; cases hc
  · rw [e]
    have hfr := breakTie_frame A s tied "Break tie (defeat)"
    have hE1 : InvE A (breakTie A s tied "Break tie (defeat)").1 := ⟨hE.1.breakTie A _ _, EHQ.breakTie A hE.2 _ _⟩
    have hM1 := hM.breakTie A tied "Break tie (defeat)"
    have hF1 := frame_breakTie A s tied "Break tie (defeat)"
    have hX1 := ext_breakTie A s tied "Break tie (defeat)"
    have hmu1 := mu_breakTie A s tied "Break tie (defeat)"
    have hS1 := sumHE_breakTie A s tied "Break tie (defeat)"
    have hlm := breakTie_mem A s tied "Break tie (defeat)" lc hb
    have hl1 : lc ∈ (breakTie A s tied "Break tie (defeat)").1.hopeful := by
      obtain ⟨hcs, hch⟩ := mem_hopeful.1 (hsub lc hlm)
      apply mem_hopeful.2
      rw [hfr.1]; exact ⟨hcs, hch⟩
    generalize (breakTie A s tied "Break tie (defeat)").1 = s1 at *
    obtain ⟨a1, a2, a3, a4, a5, a6, a7, a8, _, a10⟩ := defeatMany_spec A hE1 hM1 [lc] [lc] "Defeat" (List.Perm.refl _)
      (by simp) (by intro w hw; simp at hw; rw [hw]; exact hl1)
    simp only [List.foldl_cons, List.foldl_nil, List.map_cons, List.map_nil, List.length_cons, List.length_nil] at a1 a2 a3 a4 a5 a6 a7 a8 a10
    have hge : (s1.defeat A lc.cid "Defeat").seats ≤ sumHE (s1.defeat A lc.cid "Defeat") := by
      rw [a7.2.1, hF1.2.1]; unfold sumHE at hgt hS1 ⊢; omega
    obtain ⟨b1, b2, b3⟩ := cferFinishDefeats_spec A hA a1 a2 [lc] (by simpa using a3) (by simpa using a4) hge
    refine ⟨hX1.trans (a8.trans b1), b2, ?_⟩
    intro hc
    obtain ⟨c1, c2, c3, c4, c5, c6⟩ := b3 hc
    refine ⟨c1, c2, hF1.trans (a7.trans c3), ?_, Or.inl ?_⟩
    · rw [c3.2.1, c5]; exact c6
    · rw [c4]; omega

theorem cferAfterElect_spec (hA : LawfulArith A) (batch : Bool) {s : St α} (hE : InvE A s) (hM : Mon s)
    (hD : DroopQuota A s) (hgt : s.seats < sumHE s) : RoundOK A s (cferAfterElect A batch s) := by
  have hel : nEl s ≤ s.seats := elected_le_seats A hE.1 hE.2 hD
  unfold cferAfterElect
  by_cases hfull : s.elected.length ≥ s.seats
  · rw [if_pos hfull]
    obtain ⟨hd, hx⟩ := cferSeatsFull_spec A (s := s) ⟨hE.1, hM⟩ (by unfold nEl at *; omega)
    refine ⟨hx, fun _ => hd, ?_⟩
    intro hc; cases hc
  · rw [if_neg hfull]
    by_cases hb : (if batch then cferBatch A s else []).isEmpty = false
    · simp only [hb, Bool.not_false, if_true]
      cases batch with
      | false => simp at hb
      | true =>
        simp only [if_true] at hb ⊢
        have hne : cferBatch A s ≠ [] := by intro e; rw [e] at hb; simp at hb
        obtain ⟨h1, h2⟩ := cferBatch_enough A s hne
        exact cferDefeatBatch_spec A hA hE hM _ (cferBatch_hopeful A s) (cferBatch_nodup A s hE.1.wf) hne h1 h2
    · have hb' : (if batch then cferBatch A s else []).isEmpty = true := by simpa using hb
      simp only [hb', Bool.not_true, Bool.false_eq_true, if_false]
      by_cases hp : s.pendingL.isEmpty = false
      · simp only [hp, Bool.not_false, if_true]
        obtain ⟨a1, a2, a3, a4, a5, a6⟩ := cferSurplusAll_spec A hA hE hM
        refine ⟨a4, ?_, ?_⟩
        · intro hc; cases hc
        · intro _
          refine ⟨a1, a2, a3, ?_, Or.inl ?_⟩
          · show (cferSurplusAll A s).seats < sumHE (cferSurplusAll A s)
            rw [a3.2.1, a6]; exact hgt
          · have : 0 < s.pendingL.length := by
              cases hl : s.pendingL with
              | nil => rw [hl] at hp; simp at hp
              | cons x xs => simp
            show mu (cferSurplusAll A s) < mu s
            omega
      · have hp' : s.pendingL.isEmpty = true := by simpa using hp
        simp only [hp', Bool.not_true, Bool.false_eq_true, if_false]
        exact cferDefeatLow_spec A hA hE hM hgt

/-- loop invariant of the CfER driver -/
def CferInv (s : St α) : Prop :=
  InvE A s ∧ Mon s ∧ DroopQuota A s
  ∧ (s.round = 0 → nEl s = 0 ∧ s.seats ≤ nHop s) ∧ (s.round ≠ 0 → s.seats < sumHE s)

theorem cferBody_spec (hA : LawfulArith A) (hex : A.exact = false) (batch : Bool) {s : St α} (h : CferInv A s) :
    Ext s (cferBody A batch s).1 ∧ ((cferBody A batch s).2 = .brk → Done A (cferBody A batch s).1)
    ∧ ((cferBody A batch s).2 = .cont → InvE A (cferBody A batch s).1 ∧ Mon (cferBody A batch s).1
        ∧ Frame s (cferBody A batch s).1 ∧ (cferBody A batch s).1.seats < sumHE (cferBody A batch s).1
        ∧ (mu (cferBody A batch s).1 < mu s ∨ (cferBody A batch s).1.crash.isSome = true)) := by
  obtain ⟨hE, hM, hD, hr0, hr1⟩ := h
  have hE1 : InvE A (s.newRound A) := ⟨hE.1.newRound A, EHQ.newRound A hE.2⟩
  have hM1 := hM.newRound A
  have hF1 := frame_newRound A s
  have hX1 := ext_newRound A s
  have hrnd := round_newRound A s
  have hcnt1 : nHop (s.newRound A) = nHop s ∧ nEl (s.newRound A) = nEl s := by
    unfold St.newRound; rw [nHop_logAct, nEl_logAct]; exact ⟨rfl, rfl⟩
  unfold cferBody
  by_cases hfirst : ((s.newRound A).round == 1 && decide ((s.newRound A).hopeful.length ≤ (s.newRound A).seats)) = true
  · rw [if_pos hfirst]
    simp only [Bool.and_eq_true, beq_iff_eq, decide_eq_true_eq] at hfirst
    have hs0 : s.round = 0 := by omega
    obtain ⟨h0, hen⟩ := hr0 hs0
    obtain ⟨hd, hx⟩ := cferElectAll_spec A (s := s.newRound A) ⟨hE1.1, hM1⟩ (by rw [hcnt1.2]; exact h0)
      (by unfold nHop; exact hfirst.2) (by rw [hF1.2.1, hcnt1.1]; exact hen)
    refine ⟨hX1.trans hx, fun _ => hd, ?_⟩
    intro hc
    unfold cferElectAll at hc; cases hc
  · rw [if_neg hfirst]
    have hgt1 : (s.newRound A).seats < sumHE (s.newRound A) := by
      rw [hF1.2.1, sumHE_newRound]
      by_cases hs0 : s.round = 0
      · obtain ⟨h0, hen⟩ := hr0 hs0
        have hone : ((s.newRound A).round == 1) = true := by rw [hrnd, hs0]; rfl
        simp only [hone, Bool.true_and, decide_eq_true_eq, not_le] at hfirst
        have : nHop s = (s.newRound A).hopeful.length := hcnt1.1.symm
        rw [hF1.2.1] at hfirst
        unfold sumHE; omega
      · exact hr1 hs0
    -- the election step
    have hsound : ∀ c, hasQuotaGE A (s.newRound A) c = true → (s.newRound A).quota ≤ c.vote :=
      fun c hc => hasQuotaGE_sound A hA hex _ c hc
    have hE2 : InvE A (cferElect A (s.newRound A)) := by unfold cferElect; exact hE1.electWinners A _ _ _ hsound
    have hM2 : Mon (cferElect A (s.newRound A)) := by
      unfold cferElect; exact (InvM.electWinners A ⟨hE1.1, hM1⟩ _ _ _ hsound).2
    have hF2 : Frame (s.newRound A) (cferElect A (s.newRound A)) := by unfold cferElect; exact frame_electWinners A _ _ _ _
    have hX2 : Ext (s.newRound A) (cferElect A (s.newRound A)) := by unfold cferElect; exact ext_electWinners A _ _ _ _
    have hmu2 : mu (cferElect A (s.newRound A)) ≤ mu s := by
      rw [← mu_newRound A s]; unfold cferElect; exact mu_electWinners_le A hE1.1 _ _ _ hsound
    have hS2 : sumHE (cferElect A (s.newRound A)) = sumHE (s.newRound A) := by
      unfold cferElect; exact sumHE_electWinners A hE1.1 _ _ _ hsound
    have hD2 : DroopQuota A (cferElect A (s.newRound A)) := hD.of_frame A (hF1.trans hF2)
    have hgt2 : (cferElect A (s.newRound A)).seats < sumHE (cferElect A (s.newRound A)) := by rw [hF2.2.1, hS2]; exact hgt1
    obtain ⟨b1, b2, b3⟩ := cferAfterElect_spec A hA batch hE2 hM2 hD2 hgt2
    refine ⟨hX1.trans (hX2.trans b1), b2, ?_⟩
    intro hc
    obtain ⟨c1, c2, c3, c4, c5⟩ := b3 hc
    refine ⟨c1, c2, hF1.trans (hF2.trans c3), c4, ?_⟩
    rcases c5 with c5 | c5
    · left; omega
    · right; exact c5

/-! ## the start of a Gregory count -/

/-- `initialize` + first count + "Begin Count", as every Gregory driver of the model starts -/
def gInit (q : α) (s0 : St α) : St α :=
  ((firstCount A (s0.setQuota q)).setExhausted A.zero).logAct A "begin" "Begin Count" []

theorem fcStep_round (s : St α) (b : Ballot α) : (fcStep A s b).round = s.round := by
  unfold fcStep; split <;> rfl

theorem gInit_facts (q : α) (s0 : St α) :
    (gInit A q s0).skel = s0.skel ∧ (gInit A q s0).nballots = s0.nballots ∧ (gInit A q s0).seats = s0.seats
    ∧ (gInit A q s0).quota = q ∧ (gInit A q s0).round = s0.round ∧ Ext s0 (gInit A q s0)
    ∧ (s0.acts = [] → Mon (gInit A q s0)) := by
  unfold gInit
  obtain ⟨_, _, f3, f4, _, _⟩ := foldl_fcStep_frame A (s0.setQuota q).ballots (s0.setQuota q)
  refine ⟨?_, ?_, ?_, ?_, ?_, ?_, ?_⟩
  · unfold St.skel; rw [logAct_cands]
    show ((firstCount A (s0.setQuota q)).setExhausted A.zero).skel = _
    rw [firstCount_eq]; exact foldl_fcStep_skel A _ _
  · rw [(logAct_frame A _ _ _ _).2.2.2.2]
    show (firstCount A _).nballots = _
    rw [firstCount_eq]; exact f4
  · rw [logAct_seats]
    show (firstCount A _).seats = _
    rw [firstCount_eq]; exact foldl_fcStep_seats A _ _
  · rw [logAct_quota]
    show (firstCount A _).quota = _
    rw [firstCount_eq]; exact f3
  · rw [round_logAct]
    show (firstCount A _).round = _
    rw [firstCount_eq]
    exact round_foldl (fcStep A) (fcStep_round A) _ _
  · refine Ext.trans (Ext.of_acts_eq ?_) (ext_logAct A _ _ _ _)
    show (firstCount A _).acts = _
    rw [firstCount_acts]; rfl
  · intro h
    apply Mon.logAct
    apply Mon.of_noActs
    show (firstCount A _).acts = []
    rw [firstCount_acts]; exact h

theorem nEl_zero_of_fresh {s : St α} (h : ∀ c ∈ s.cands, c.st ≠ .elected) : nEl s = 0 := by
  unfold nEl St.elected
  rw [List.length_eq_zero_iff, List.filter_eq_nil_iff]
  intro c hc
  simpa using h c hc

/-- what a Gregory rule is handed: `Init`, a positive quota, nobody elected yet, at least as many candidates standing as
    seats, the round counter at zero; `droop` is the Droop condition `nballots < (seats+1)·quota` on the rule's quota -/
structure GStart (q : α) (s0 : St α) : Prop where
  init : Init A s0
  quota_pos : 0 < q
  fresh : ∀ c ∈ s0.cands, c.st ≠ .elected
  enough : s0.seats ≤ nHop s0
  round0 : s0.round = 0
  droop : ((s0.nballots : Int) : α) * A.one < ((s0.seats + 1 : Nat) : α) * q

theorem GStart.facts (hA : LawfulArith A) {q : α} {s0 : St α} (h : GStart A q s0) :
    InvE A (gInit A q s0) ∧ Mon (gInit A q s0) ∧ DroopQuota A (gInit A q s0) ∧ (gInit A q s0).round = 0
    ∧ nEl (gInit A q s0) = 0 ∧ (gInit A q s0).seats ≤ nHop (gInit A q s0) ∧ (gInit A q s0).cands.length = s0.cands.length
    ∧ Ext s0 (gInit A q s0) := by
  obtain ⟨hsk, e1, e2, e3, e4, hx, hm⟩ := gInit_facts A q s0
  have hI : Inv A (gInit A q s0) := Inv.init A hA q h.init h.quota_pos
  have hfresh : ∀ c ∈ (gInit A q s0).cands, c.st ≠ .elected := by
    intro c hc
    obtain ⟨c0, hc0, hcs⟩ := mem_of_skel_eq hsk hc
    rw [← (skel_st hcs).1]; exact h.fresh c0 hc0
  refine ⟨⟨hI, EHQ.of_noElected hfresh⟩, hm h.init.noActs, ?_, e4.trans h.round0, nEl_zero_of_fresh hfresh, ?_, ?_, hx⟩
  · unfold DroopQuota; rw [e1, e2, e3]; exact h.droop
  · rw [e2, (counts_of_skel hsk).1]; exact h.enough
  · have hl := congrArg List.length hsk
    unfold St.skel at hl; simpa using hl

/-! ## the whole CfER count -/
theorem cferInit_eq (s0 : St α) :
    cferInit A s0 = gInit A (A.add (A.divV (A.ofInt s0.nballots) (A.ofInt (s0.seats + 1))) A.eps) s0 := rfl

abbrev cferQuota (s0 : St α) : α := A.add (A.divV (A.ofInt s0.nballots) (A.ofInt (s0.seats + 1))) A.eps

theorem CferInv.init (hA : LawfulArith A) {s0 : St α} (h : GStart A (cferQuota A s0) s0) : CferInv A (cferInit A s0) := by
  rw [cferInit_eq]
  obtain ⟨a1, a2, a3, a4, a5, a6, _, _⟩ := h.facts A hA
  exact ⟨a1, a2, a3, fun _ => ⟨a5, a6⟩, fun hne => absurd a4 hne⟩

/-! ### only `newRound` moves the round counter -/
theorem round_foldElect (l : List (Cand α)) (verb : String) (p : Bool) (s : St α) :
    (l.foldl (fun acc c => acc.elect A c.cid verb p) s).round = s.round :=
  round_foldl (fun (acc : St α) (c : Cand α) => acc.elect A c.cid verb p) (fun t c => round_elect A t c.cid verb p) l s

theorem round_foldDefeat (l : List (Cand α)) (verb : String) (s : St α) :
    (l.foldl (fun acc c => acc.defeat A c.cid verb) s).round = s.round :=
  round_foldl (fun (acc : St α) (c : Cand α) => acc.defeat A c.cid verb) (fun t c => round_defeat A t c.cid verb) l s

theorem round_foldUnpend (l : List (Cand α)) (s : St α) :
    (l.foldl (fun acc c => acc.unpendSilent c.cid) s).round = s.round :=
  round_foldl (fun (acc : St α) (c : Cand α) => acc.unpendSilent c.cid) (fun _ _ => rfl) l s

theorem round_cferFinishDefeats (s : St α) (defeats : List (Cand α)) :
    (cferFinishDefeats A s defeats).1.round = s.round := by
  unfold cferFinishDefeats
  split
  · dsimp only; rw [round_foldElect, round_foldElect]
  · exact round_transferDefeated A _ _ _

theorem round_cferSurplusOne (s : St α) (c : Cand α) : (cferSurplusOne A s c).round = s.round := by
  unfold cferSurplusOne
  split
  · rw [round_transferSurplus, round_unpendLog]
  · rfl

theorem round_cferSeatsFull (s : St α) : (cferSeatsFull A s).1.round = s.round := by
  unfold cferSeatsFull; dsimp only; rw [round_foldDefeat, round_foldUnpend]

theorem round_cferDefeatBatch (s : St α) (defeats : List (Cand α)) : (cferDefeatBatch A s defeats).1.round = s.round := by
  unfold cferDefeatBatch; rw [round_cferFinishDefeats, round_foldDefeat]

theorem round_cferSurplusAll (s : St α) : (cferSurplusAll A s).round = s.round := by
  unfold cferSurplusAll; exact round_foldl (cferSurplusOne A) (round_cferSurplusOne A) _ _

theorem round_cferDefeatLow (s : St α) : (cferDefeatLow A s).1.round = s.round := by
  rcases cferDefeatLow_cases A s with ⟨_, e⟩ | ⟨tied, _, ⟨_, e⟩ | ⟨lc, _, e⟩⟩
  · rw [e]; exact round_setCrash s _
  · rw [e]; exact round_breakTie A s _ _
  · rw [e, round_cferFinishDefeats, round_defeat]; exact round_breakTie A s _ _

theorem round_cferAfterElect (batch : Bool) (s : St α) : (cferAfterElect A batch s).1.round = s.round := by
  unfold cferAfterElect
  repeat' split
  all_goals first
    | exact round_cferSeatsFull A s
    | exact round_cferDefeatBatch A s _
    | exact round_cferSurplusAll A s
    | exact round_cferDefeatLow A s

theorem round_cferBody (batch : Bool) (s : St α) : (cferBody A batch s).1.round = s.round + 1 := by
  unfold cferBody
  split
  · unfold cferElectAll; dsimp only; rw [round_foldElect]; exact round_newRound A s
  · rw [round_cferAfterElect]
    unfold cferElect; rw [round_electWinners]; exact round_newRound A s

/-- **the round invariant is kept by every round that continues** -/
theorem CferInv.step (hA : LawfulArith A) (hex : A.exact = false) (batch : Bool) {s : St α} (h : CferInv A s)
    (hc : (cferBody A batch s).2 = .cont) : CferInv A (cferBody A batch s).1 := by
  obtain ⟨c1, c2, c3, c4, _⟩ := (cferBody_spec A hA hex batch h).2.2 hc
  have hr := round_cferBody A batch s
  exact ⟨c1, c2, h.2.2.1.of_frame A c3, fun h0 => by omega, fun _ => c4⟩

/-- **C01 (termination), cfer and cfer-batch**: the count returns for every legitimate start -/
theorem cferCount_terminates (hA : LawfulArith A) (hex : A.exact = false) (batch : Bool) (s0 : St α)
    (h0 : GStart A (cferQuota A s0) s0) : ∃ t, cferCount A batch s0 = some t := by
  have hinit := CferInv.init A hA h0
  have hlen : (cferInit A s0).cands.length = s0.cands.length := by rw [cferInit_eq]; exact (h0.facts A hA).2.2.2.2.2.2.1
  have hfuel : mu (cferInit A s0) + 2 ≤ 2 * s0.cands.length + 3 := by
    have := mu_le_two_mul (cferInit A s0)
    omega
  unfold cferCount
  exact loopN_total2 (CferInv A) (fun _ => true) (cferBody A batch)
    (fun s hs _ hc => hs.step A hA hex batch hc)
    (fun s hs _ hc => ((cferBody_spec A hA hex batch hs).2.2 hc).2.2.2.2)
    (2 * s0.cands.length + 3) (cferInit A s0) hinit (by omega) (Or.inr hfuel)

/-- **C01 / C09, cfer and cfer-batch**: whatever the count returns has a forward-only, append-only record, and unless the
    crash flag is up exactly `seats` candidates are elected and nobody is left hopeful -/
theorem cfer_result (hA : LawfulArith A) (hex : A.exact = false) (batch : Bool) (s0 t : St α)
    (h0 : GStart A (cferQuota A s0) s0) (h : cferCount A batch s0 = some t) :
    Mon t ∧ Ext s0 t ∧ (t.crash = none → nEl t = t.seats ∧ nHop t = 0) := by
  have hinit := CferInv.init A hA h0
  unfold cferCount at h
  have hX : Ext (cferInit A s0) t := loopN_ext (CferInv A) (fun _ => true) (cferBody A batch)
    (fun s hs _ hc => hs.step A hA hex batch hc) (fun s hs _ => (cferBody_spec A hA hex batch hs).1) _ _ _ hinit h
  have hX0 : Ext s0 (cferInit A s0) := by rw [cferInit_eq]; exact (h0.facts A hA).2.2.2.2.2.2.2
  rcases loopN_result (CferInv A) (Done A) (fun _ => true) (cferBody A batch)
    (fun s hs _ hc => hs.step A hA hex batch hc) (fun s hs _ hc => (cferBody_spec A hA hex batch hs).2.1 hc)
    _ _ _ hinit h with ⟨hP, hstop⟩ | hQ
  · refine ⟨hP.2.1, hX0.trans hX, ?_⟩
    intro hcr
    rcases hstop with hs | hs
    · rw [hcr] at hs; simp at hs
    · simp at hs
  · exact ⟨hQ.1.2, hX0.trans hX, hQ.2⟩

theorem cfer_seats_filled (hA : LawfulArith A) (hex : A.exact = false) (batch : Bool) (s0 : St α)
    (h0 : GStart A (cferQuota A s0) s0) :
    ∃ t, cferCount A batch s0 = some t ∧ (t.crash = none → nEl t = t.seats ∧ nHop t = 0) := by
  obtain ⟨t, ht⟩ := cferCount_terminates A hA hex batch s0 h0
  exact ⟨t, ht, (cfer_result A hA hex batch s0 t h0 ht).2.2⟩

end Droop
