import DroopProofs.Majority
import DroopProofs.RunScot
import DroopProofs.RunCfer
import DroopProofs.RunMpls
import DroopProofs.RunZero

/-! # C05, one seat, at run level: whoever holds a quota at the first election step is elected when the count ends

For each Gregory driver: if a hopeful candidate `w` of the state the main loop starts in passes the rule's quota test
there, then the state the count returns has `w` elected.  (With one seat and more than half of the ballots this is the
majority candidate, and since the count ends with exactly `seats` elected it is the only winner: `Props/C05.lean`.)
No assumption on what happens after the first election step is used beyond: the log only grows and the record is
forward-only. -/
namespace Droop
variable {α : Type} [CommRing α] [LinearOrder α] [IsStrictOrderedRing α] (A : Arith α)

/-- one step of the fuelled loop, under a round invariant -/
theorem loopN_first' (P : St α → Prop) (guard : St α → Bool) (body : St α → St α × Flow)
    (hP : ∀ s, P s → guard s = true → (body s).2 = .cont → P (body s).1)
    (hX : ∀ s, P s → guard s = true → Ext s (body s).1)
    (n : Nat) (s t : St α) (hPs : P s) (hc : s.crash = none) (hg : guard s = true)
    (h : loopN guard body (n + 1) s = some t) : Ext (body s).1 t := by
  unfold loopN at h
  simp only [hc, Option.isSome_none, Bool.false_eq_true, if_false, hg, if_true] at h
  have hP' := hP s hPs hg
  cases hbs : body s with
  | mk s' fl =>
    rw [hbs] at h hP'
    cases fl with
    | cont => exact loopN_ext P guard body hP hX _ _ _ (hP' rfl) h
    | brk => simp only [Option.some.injEq] at h; rw [← h]; exact Ext.refl _

theorem hopeful_newRound (s : St α) : (s.newRound A).hopeful = s.hopeful := by
  unfold St.newRound St.hopeful; rw [logAct_cands]

theorem quota_newRound (s : St α) : (s.newRound A).quota = s.quota := by
  unfold St.newRound; rw [logAct_quota]

/-! ## scotland -/

theorem ext_scotEpilogue (s : St α) : Ext s (scotEpilogue A s) := by
  unfold scotEpilogue
  dsimp only
  refine Ext.trans (ext_foldl _ (fun (acc : St α) (c : Cand α) => ext_unpendSilent acc c.cid) s.pendingL s) ?_
  refine Ext.trans ?_ (ext_foldl _ (fun (acc : St α) (c : Cand α) => ext_defeat A acc c.cid _) _ _)
  split
  · exact ext_foldl _ (fun (acc : St α) (c : Cand α) => ext_elect A acc c.cid _ _) _ _
  · exact Ext.refl _

theorem scotInit_crash (s0 : St α) : (scotInit A s0).crash = s0.crash := by
  unfold scotInit
  rw [crash_logAct]
  show (firstCount A _).crash = _
  rw [firstCount_eq, foldl_fcStep_crash]; rfl

theorem scot_first_elected (hA : LawfulArith A) (hex : A.exact = false) (s0 t : St α) (h0 : ScotStart A s0)
    (hc0 : s0.crash = none) (h : scotCount A s0 = some t)
    (w : Cand α) (hw : w ∈ (scotInit A s0).hopeful) (hq : hasQuotaGE A (scotInit A s0) w = true) :
    ∃ x ∈ t.cands, x.cid = w.cid ∧ x.st = .elected := by
  have hM := (scot_record_monotone A hA hex s0 t h0 h).1
  unfold scotCount at h
  cases hl : loopN (fun _ => true) (scotBody A) (2 * s0.cands.length + 3) (scotInit A s0) with
  | none => rw [hl] at h; cases h
  | some s4 =>
    rw [hl] at h
    have ht : t = scotEpilogue A s4 := (Option.some.inj h).symm
    have hsh : Shown w.cid (scotElect A (scotInit A s0)) := by
      unfold scotElect; exact shown_electWinners A _ _ _ _ w hw hq
    have hX1 : Ext (scotElect A (scotInit A s0)) (scotBody A (scotInit A s0)).1 := by
      unfold scotBody
      split
      · exact Ext.refl _
      · have hX2 : Ext (scotElect A (scotInit A s0)) (scotRound A (scotElect A (scotInit A s0))) := by
          unfold scotRound; exact (ext_newRound A _).trans (ext_setSurplus _ _)
        unfold scotStage
        split
        · exact hX2.trans (ext_scotSurplusStep A _)
        · split
          · rw [scotFinish_fst]; exact hX2.trans (ext_scotDefeatStep A _)
          · rw [scotFinish_fst]; exact hX2
    have hX2 : Ext (scotBody A (scotInit A s0)).1 s4 :=
      loopN_first (fun _ => true) (scotBody A) (ext_scotBody A) (2 * s0.cands.length + 2) _ _
        (by rw [scotInit_crash]; exact hc0) rfl hl
    rw [ht] at hM ⊢
    exact hsh.final (hX1.trans (hX2.trans (ext_scotEpilogue A s4))) hM

/-! ## wigm, wigm-prf, wigm-prf-batch (every configuration) -/

theorem pendingL_nil_of_nEl {s : St α} (h : nEl s = 0) : s.pendingL = [] := by
  unfold nEl St.elected at h
  have h0 : s.cands.filter (fun c => c.st == .elected) = [] := List.eq_nil_of_length_eq_zero h
  unfold St.pendingL
  rw [List.filter_eq_nil_iff] at h0 ⊢
  intro c hc hcc
  simp only [Bool.and_eq_true] at hcc
  exact h0 c hc hcc.1

theorem wigm_first_elected (o : WigmOpts) (s0 t : St α) (h : wigmCount A o s0 = some t) (hM : Mon t)
    (hc : (wigmInit A o s0).crash = none) (hel : nEl (wigmInit A o s0) = 0) (hseats : (wigmInit A o s0).seats = 1)
    (w : Cand α) (hw : w ∈ (wigmInit A o s0).hopeful)
    (hq : (if o.prf then hasQuotaGE A else hasQuotaX A) ((wigmInit A o s0).newRound A) w = true) :
    ∃ x ∈ t.cands, x.cid = w.cid ∧ x.st = .elected := by
  unfold wigmCount at h
  cases hl : loopN stdGuard (wigmBody A o) (2 * s0.cands.length + 3) (wigmInit A o s0) with
  | none => rw [hl] at h; cases h
  | some s4 =>
    rw [hl] at h
    have ht : t = epilogueElectOrDefeat A s4 := (Option.some.inj h).symm
    by_cases hg : stdGuard (wigmInit A o s0) = true
    · have hsh : Shown w.cid (wigmElect A o ((wigmInit A o s0).newRound A)) := by
        unfold wigmElect
        exact shown_electWinners A _ _ _ _ w (by rw [hopeful_newRound]; exact hw) hq
      have hX1 : Ext (wigmElect A o ((wigmInit A o s0).newRound A)) (wigmBody A o (wigmInit A o s0)).1 := by
        unfold wigmBody; exact ext_wigmAfterElect A o _
      have hX2 : Ext (wigmBody A o (wigmInit A o s0)).1 s4 :=
        loopN_first stdGuard (wigmBody A o) (ext_wigmBody A o) (2 * s0.cands.length + 2) _ _ hc hg hl
      rw [ht] at hM ⊢
      exact hsh.final (hX1.trans (hX2.trans (ext_epilogue A s4))) hM
    · -- a single candidate standing: the loop is not entered and the epilogue elects that candidate
      have hgf : stdGuard (wigmInit A o s0) = false := by simpa using hg
      have hs4 : s4 = wigmInit A o s0 :=
        loopN_guard_false stdGuard (wigmBody A o) (2 * s0.cands.length + 2) _ _ hc hgf hl
      generalize wigmInit A o s0 = s1 at *
      subst hs4
      have hlen : s4.hopeful.length ≤ 1 := by
        unfold stdGuard St.seatsLeft at hgf
        unfold nEl at hel
        simp only [Bool.and_eq_false_iff, decide_eq_false_iff_not, not_lt] at hgf
        rw [hel, hseats] at hgf
        rcases hgf with h1 | h1
        · omega
        · omega
      have hhop : s4.hopeful = [w] := by
        cases hh : s4.hopeful with
        | nil => rw [hh] at hw; cases hw
        | cons a l =>
          rw [hh] at hw hlen
          cases l with
          | nil => simp only [List.mem_singleton] at hw; rw [hw]
          | cons b l' => simp at hlen
      have hpend := pendingL_nil_of_nEl hel
      have hep : epilogueElectOrDefeat A s4 = s4.elect A w.cid "Elect remaining" false := by
        unfold epilogueElectOrDefeat
        dsimp only
        rw [hpend]
        simp only [List.foldl_nil]
        rw [hhop]
        simp only [List.foldl_cons, List.foldl_nil]
        have : s4.elected.length < s4.seats := by unfold nEl at hel; rw [hel, hseats]; omega
        rw [if_pos this]
      rw [ht, hep]
      obtain ⟨x, hx, hxw⟩ := elect_has A s4 w.cid "Elect remaining" false w.cid ⟨w, (mem_hopeful.1 hw).1, rfl⟩
      exact ⟨x, hx, hxw, elect_sets A s4 w.cid _ _ x hx hxw⟩

/-! ## cfer, cfer-batch -/

theorem ext_cferFinishDefeats (s : St α) (defeats : List (Cand α)) : Ext s (cferFinishDefeats A s defeats).1 := by
  unfold cferFinishDefeats
  split
  · exact (ext_foldl _ (fun (acc : St α) (c : Cand α) => ext_elect A acc c.cid _ _) _ _).trans
      (ext_foldl _ (fun (acc : St α) (c : Cand α) => ext_elect A acc c.cid _ _) _ _)
  · exact ext_transferDefeated A _ _ _

theorem ext_cferSurplusOne (acc : St α) (c : Cand α) : Ext acc (cferSurplusOne A acc c) := by
  unfold cferSurplusOne
  split
  · exact (ext_unpendLog A _ _ _).trans (ext_transferSurplus A _ _ _ _)
  · exact Ext.refl _

theorem ext_cferDefeatLow (s : St α) : Ext s (cferDefeatLow A s).1 := by
  unfold cferDefeatLow
  split
  · exact ext_setCrash _ _
  · rename_i lv _
    split
    · rename_i s3 lc heq
      have h1 : Ext s s3 := by
        have := ext_breakTie A s (s.hopeful.filter (fun c => A.eq c.vote lv)) "Break tie (defeat)"
        rw [heq] at this; exact this
      exact h1.trans ((ext_defeat A _ _ _).trans (ext_cferFinishDefeats A _ _))
    · rename_i s3 heq
      have := ext_breakTie A s (s.hopeful.filter (fun c => A.eq c.vote lv)) "Break tie (defeat)"
      rw [heq] at this; exact this

theorem ext_cferSeatsFull (s : St α) : Ext s (cferSeatsFull A s).1 := by
  unfold cferSeatsFull
  exact (ext_foldl _ (fun (acc : St α) (c : Cand α) => ext_unpendSilent acc c.cid) _ _).trans
    (ext_foldl _ (fun (acc : St α) (c : Cand α) => ext_defeat A acc c.cid _) _ _)

theorem ext_cferDefeatBatch (s : St α) (l : List (Cand α)) : Ext s (cferDefeatBatch A s l).1 := by
  unfold cferDefeatBatch
  exact (ext_foldl _ (fun (acc : St α) (c : Cand α) => ext_defeat A acc c.cid _) _ _).trans
    (ext_cferFinishDefeats A _ _)

theorem ext_cferAfterElect (batch : Bool) (s : St α) : Ext s (cferAfterElect A batch s).1 := by
  unfold cferAfterElect
  by_cases h1 : s.elected.length ≥ s.seats
  · rw [if_pos h1]; exact ext_cferSeatsFull A s
  · rw [if_neg h1]
    by_cases h2 : (!(if batch then cferBatch A s else []).isEmpty) = true
    · rw [if_pos h2]; exact ext_cferDefeatBatch A s _
    · rw [if_neg h2]
      by_cases h3 : (!s.pendingL.isEmpty) = true
      · rw [if_pos h3]
        unfold cferSurplusAll
        exact ext_foldl _ (ext_cferSurplusOne A) _ _
      · rw [if_neg h3]; exact ext_cferDefeatLow A s

theorem cfer_first_elected (hA : LawfulArith A) (hex : A.exact = false) (batch : Bool) (s0 t : St α)
    (h0 : GStart A (cferQuota A s0) s0) (hc0 : s0.crash = none) (h : cferCount A batch s0 = some t)
    (w : Cand α) (hw : w ∈ (cferInit A s0).hopeful) (hq : hasQuotaGE A ((cferInit A s0).newRound A) w = true) :
    ∃ x ∈ t.cands, x.cid = w.cid ∧ x.st = .elected := by
  have hM := (cfer_result A hA hex batch s0 t h0 h).1
  have hinit := CferInv.init A hA h0
  unfold cferCount at h
  have hcr : (cferInit A s0).crash = none := by rw [cferInit_eq, gInit_crash]; exact hc0
  have hX2 : Ext (cferBody A batch (cferInit A s0)).1 t :=
    loopN_first' (CferInv A) (fun _ => true) (cferBody A batch)
      (fun s hs _ hc => hs.step A hA hex batch hc) (fun s hs _ => (cferBody_spec A hA hex batch hs).1)
      (2 * s0.cands.length + 2) _ _ hinit hcr rfl h
  have hw' : w ∈ ((cferInit A s0).newRound A).hopeful := by rw [hopeful_newRound]; exact hw
  have hsh : ∃ r, Shown w.cid r ∧ Ext r (cferBody A batch (cferInit A s0)).1 := by
    unfold cferBody
    split
    · refine ⟨_, ?_, Ext.refl _⟩
      unfold cferElectAll
      exact shown_foldElect A _ (fun _ => "Elect all") (fun _ => false) _ w hw' ⟨w, (mem_hopeful.1 hw').1, rfl⟩
    · refine ⟨cferElect A ((cferInit A s0).newRound A), ?_, ext_cferAfterElect A batch _⟩
      unfold cferElect
      exact shown_electWinners A _ _ _ _ w hw' hq
  obtain ⟨r, hr, hxr⟩ := hsh
  exact hr.final (hxr.trans hX2) hM

/-! ## mpls (no undeclared write-ins) -/

theorem ext_mplsEpilogue (s : St α) : Ext s (mplsEpilogue A s) := by
  unfold mplsEpilogue
  refine Ext.trans ?_ (ext_foldl _ (fun (acc : St α) (c : Cand α) => ext_defeat A acc c.cid _) _ _)
  split
  · exact ext_foldl _ (fun (acc : St α) (c : Cand α) => ext_elect A acc c.cid _ _) _ _
  · exact Ext.refl _

theorem mpls_first_elected (hA : LawfulArith A) (hex : A.exact = false) (s0 t : St α)
    (h0 : GStart A (mplsQuota A s0) s0) (hnu : NoUnd s0) (h : mplsCount A s0 = some t)
    (hcr : (mplsInit A s0).crash = none) (hseats : (mplsInit A s0).seats = 1)
    (w : Cand α) (hw : w ∈ (mplsInit A s0).hopeful) (hq : hasQuotaGE A (mplsInit A s0) w = true) :
    ∃ x ∈ t.cands, x.cid = w.cid ∧ x.st = .elected := by
  have hM := (mpls_result A hA hex s0 t h0 hnu h).1
  obtain ⟨hinit, _, _⟩ := mplsInit_inv A hA h0 hnu
  unfold mplsCount at h
  cases hl : loopN (fun _ => true) (mplsBody A) (2 * s0.cands.length + 4) (mplsInit A s0) with
  | none => rw [hl] at h; cases h
  | some s4 =>
    rw [hl] at h
    have ht : t = mplsEpilogue A s4 := (Option.some.inj h).symm
    have hX2 : Ext (mplsBody A (mplsInit A s0)).1 s4 :=
      loopN_first' (MplsInv A) (fun _ => true) (mplsBody A)
        (fun s hs _ _ => (mplsBody_spec A hA hex hs).1) (fun s hs _ => (mplsBody_spec A hA hex hs).2.1)
        (2 * s0.cands.length + 3) _ _ hinit hcr rfl hl
    -- the candidate is at the threshold in the state `Count Votes` is logged in
    have hcv_c : (mplsCountVotes A (mplsInit A s0)).cands = (mplsInit A s0).cands := by
      unfold mplsCountVotes; rw [logAct_cands]; rfl
    have hcv_q : (mplsCountVotes A (mplsInit A s0)).quota = (mplsInit A s0).quota := by
      unfold mplsCountVotes; rw [logAct_quota]; rfl
    have hcv_s : (mplsCountVotes A (mplsInit A s0)).seats = (mplsInit A s0).seats := by
      unfold mplsCountVotes St.logAct; simp only; split <;> rfl
    have hwh : w ∈ (mplsCountVotes A (mplsInit A s0)).hopeful := by
      unfold St.hopeful at hw ⊢; rw [hcv_c]; exact hw
    have hwu : w.undeclared = false := hinit.2.2.2.2 w (mem_hopeful.1 hw).1
    have hwt : w ∈ mplsAtThreshold A (mplsCountVotes A (mplsInit A s0)) := by
      unfold mplsAtThreshold
      rw [List.mem_filter]
      refine ⟨(mem_pySorted _ _ _ _).2 hwh, ?_⟩
      have : hasQuotaGE A (mplsCountVotes A (mplsInit A s0)) w = true := by
        unfold hasQuotaGE at hq ⊢; rw [hcv_q]; exact hq
      simp [hwu, this]
    have hlen : 1 ≤ (mplsAtThreshold A (mplsCountVotes A (mplsInit A s0))).length :=
      List.length_pos_of_mem hwt
    have hsh : Shown w.cid (mplsBody A (mplsInit A s0)).1 := by
      unfold mplsBody
      rw [if_pos (by rw [hcv_s, hseats]; omega)]
      unfold mplsElectThreshold
      exact shown_foldElect A _ (fun _ => "Candidate at threshold") (fun _ => false) _ w hwt
        ⟨w, (mem_hopeful.1 hwh).1, rfl⟩
    rw [ht] at hM ⊢
    exact hsh.final (hX2.trans (ext_mplsEpilogue A s4)) hM

end Droop
