import DroopModel.Gregory

/-! # transferAll: frame lemmas and declarative characterisation (core Lean only) -/
namespace Droop
variable {α : Type} (A : Arith α)

/-- the part of a candidate that transfers never touch -/
def Cand.skel (c : Cand α) : Nat × Nat × Nat × Bool × CState × Bool := (c.cid, c.order, c.tie, c.undeclared, c.st, c.pending)
def St.skel (s : St α) : List (Nat × Nat × Nat × Bool × CState × Bool) := s.cands.map Cand.skel

@[simp] theorem upd_vote_skel (s : St α) (cid : Nat) (g : Cand α → α) :
    (s.upd cid (fun c => { c with vote := g c })).skel = s.skel := by
  unfold St.skel St.upd
  simp only [List.map_map]
  apply List.map_congr_left
  intro c _
  simp only [Function.comp]
  split <;> rfl

@[simp] theorem addVote_skel (s : St α) (cid : Nat) (v : α) : (s.addVote A cid v).skel = s.skel :=
  upd_vote_skel s cid _
@[simp] theorem setVote_skel (s : St α) (cid : Nat) (v : α) : (s.setVote cid v).skel = s.skel :=
  upd_vote_skel s cid _

theorem isHopeful_of_skel {s t : St α} (h : s.skel = t.skel) (cid : Nat) : s.isHopeful cid = t.isHopeful cid := by
  unfold St.isHopeful
  have : ∀ (l : List (Cand α)), l.any (fun c => c.cid == cid && c.st == .hopeful)
      = (l.map Cand.skel).any (fun k => k.1 == cid && k.2.2.2.2.1 == .hopeful) := by
    intro l; induction l with
    | nil => rfl
    | cons c cs ih => simp [List.any_cons, ih, Cand.skel]
  rw [this, this]
  unfold St.skel at h
  rw [h]

theorem transferBallot_skel (s : St α) (b : Ballot α) : (transferBallot A s b).1.skel = s.skel := by
  unfold transferBallot
  split
  · simp
  · rfl

/-- the ballot after transfer depends on the state only through its skeleton -/
theorem transferBallot_snd (s : St α) (b : Ballot α) :
    (transferBallot A s b).2 = advanceTo (fun cid => s.isHopeful cid) b := by
  unfold transferBallot
  split <;> rfl

theorem tstep_skel (cids : List Nat) (rew : α → α) (acc : St α × List (Ballot α)) (b : Ballot α) :
    (tstep A cids rew acc b).1.skel = acc.1.skel := by
  unfold tstep
  split
  · split
    · simp [transferBallot_skel]
    · rfl
  · rfl

theorem foldl_tstep_skel (cids : List Nat) (rew : α → α) (bs : List (Ballot α)) (acc : St α × List (Ballot α)) :
    (bs.foldl (tstep A cids rew) acc).1.skel = acc.1.skel := by
  induction bs generalizing acc with
  | nil => rfl
  | cons b bs ih => simp only [List.foldl_cons]; rw [ih, tstep_skel]

theorem transferAll_skel (s : St α) (cids : List Nat) (rew : α → α) :
    (transferAll A s cids rew).skel = s.skel := by
  have := foldl_tstep_skel A cids rew s.ballots (s, [])
  simpa [transferAll, St.skel] using this

/-- what `transferAll` does to one ballot, stated without the fold -/
def moveBallot (s : St α) (cids : List Nat) (rew : α → α) (b : Ballot α) : Ballot α :=
  match b.top with
  | some c => if cids.contains c then advanceTo (fun cid => s.isHopeful cid) { b with w := rew b.w } else b
  | none => b

theorem tstep_snd (cids : List Nat) (rew : α → α) (s : St α) (acc : St α × List (Ballot α)) (b : Ballot α)
    (h : acc.1.skel = s.skel) :
    (tstep A cids rew acc b).2 = moveBallot s cids rew b :: acc.2 := by
  unfold tstep moveBallot
  cases hb : b.top with
  | none => rfl
  | some c =>
    by_cases hc : cids.contains c = true
    · simp only [hc, if_true, transferBallot_snd]
      have : (fun cid => acc.1.isHopeful cid) = (fun cid => s.isHopeful cid) := by
        funext cid; exact isHopeful_of_skel h cid
      rw [this]
    · simp only [hc]
      rfl

theorem foldl_tstep_snd (cids : List Nat) (rew : α → α) (s : St α) (bs : List (Ballot α))
    (acc : St α × List (Ballot α)) (h : acc.1.skel = s.skel) :
    (bs.foldl (tstep A cids rew) acc).2 = (bs.map (moveBallot s cids rew)).reverse ++ acc.2 := by
  induction bs generalizing acc with
  | nil => simp
  | cons b bs ih =>
    simp only [List.foldl_cons, List.map_cons, List.reverse_cons, List.append_assoc, List.singleton_append]
    rw [ih _ (by rw [tstep_skel]; exact h), tstep_snd A cids rew s acc b h]

/-- the ballots after `transferAll` are the pointwise image under `moveBallot` -/
theorem transferAll_ballots (s : St α) (cids : List Nat) (rew : α → α) :
    (transferAll A s cids rew).ballots = s.ballots.map (moveBallot s cids rew) := by
  have := foldl_tstep_snd A cids rew s s.ballots (s, []) rfl
  simp [transferAll, this]

end Droop
