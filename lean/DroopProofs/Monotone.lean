import DroopProofs.FinalCount2

/-! # C09 (first clause) as a record property: between consecutive snapshots every status moves forward -/
namespace Droop
variable {α : Type} [CommRing α] [LinearOrder α] [IsStrictOrderedRing α] (A : Arith α)

/-- forward moves of the one-letter status code (W withdrawn, H hopeful, e elected-pending, E elected, D defeated) -/
def fwd (a b : String) : Bool :=
  a == b || (a == "H" && (b == "e" || b == "E" || b == "D")) || (a == "e" && b == "E")

def codes : List String := ["W", "H", "e", "E", "D"]

theorem fwd_refl (a : String) : fwd a a = true := by unfold fwd; simp
theorem fwd_trans : ∀ a ∈ codes, ∀ b ∈ codes, ∀ c ∈ codes, fwd a b = true → fwd b c = true → fwd a c = true := by
  decide

theorem code_mem (m : Method) (c : Cand α) : c.code m ∈ codes := by
  unfold Cand.code codes
  cases c.st <;> simp
  split <;> simp

/-- the snapshot `sn` is "behind" the state: every candidate's code in `sn` can move forward to its current code -/
def Behind (sn : Snap α) (s : St α) : Prop :=
  (∀ c ∈ s.cands, ∃ e ∈ sn.cs, e.1 = c.cid ∧ e.2.1 ∈ codes ∧ fwd e.2.1 (c.code s.method) = true)
  ∧ ∀ e ∈ sn.cs, ∃ c ∈ s.cands, c.cid = e.1

/-- consecutive snapshots of the log (newest first) are related by `fwd`, candidate by candidate, and no candidate of
    the older snapshot is missing from the newer one -/
def SnapStep (old new : Snap α) : Prop :=
  (∀ e' ∈ new.cs, ∃ e ∈ old.cs, e.1 = e'.1 ∧ fwd e.2.1 e'.2.1 = true)
  ∧ ∀ e ∈ old.cs, ∃ e' ∈ new.cs, e'.1 = e.1

def snaps (acts : List (Act α)) : List (Snap α) := acts.filterMap (·.snap)

def RecMon : List (Snap α) → Prop
  | [] => True
  | [_] => True
  | new :: old :: rest => SnapStep old new ∧ RecMon (old :: rest)

/-- the monotonicity invariant: the log is monotone and its newest snapshot is behind the current state -/
def Mon (s : St α) : Prop :=
  RecMon (snaps s.acts) ∧ ∀ sn, (snaps s.acts).head? = some sn → Behind sn s

theorem behind_mkSnap (s : St α) : Behind (s.mkSnap A) s := by
  refine ⟨?_, ?_⟩
  · intro c hc
    refine ⟨(c.cid, c.code s.method, c.vote, c.kf, c.quotient), ?_, rfl, code_mem _ _, fwd_refl _⟩
    unfold St.mkSnap
    exact List.mem_map.2 ⟨c, hc, rfl⟩
  · intro e he
    unfold St.mkSnap at he
    obtain ⟨c, hc, rfl⟩ := List.mem_map.1 he
    exact ⟨c, hc, rfl⟩

theorem snapStep_of_behind (sn : Snap α) (s : St α) (h : Behind sn s) : SnapStep sn (s.mkSnap A) := by
  refine ⟨?_, ?_⟩
  · intro e' he'
    unfold St.mkSnap at he'
    obtain ⟨c, hc, rfl⟩ := List.mem_map.1 he'
    obtain ⟨e, he, h1, _, h3⟩ := h.1 c hc
    exact ⟨e, he, h1, h3⟩
  · intro e he
    obtain ⟨c, hc, hce⟩ := h.2 e he
    refine ⟨(c.cid, c.code s.method, c.vote, c.kf, c.quotient), ?_, hce⟩
    unfold St.mkSnap
    exact List.mem_map.2 ⟨c, hc, rfl⟩

theorem Mon.logAct {s : St α} (h : Mon s) (tag verb : String) (subj : List Nat) : Mon (s.logAct A tag verb subj) := by
  -- the logged state differs from `s` only in `rounds` (tag = round) and `acts`
  have hkey : ∀ (s1 : St α), s1.cands = s.cands → s1.method = s.method → s1.acts = s.acts →
      Mon ({ s1 with acts := { tag, round := s.round, verb, subj, snap := some (St.mkSnap A s1),
                                ws := s.ballots.map (fun b => (b.idx, b.w)) } :: s1.acts } : St α) := by
    intro s1 hc hm ha
    have hsnap : St.mkSnap A s1 = St.mkSnap A s1 := rfl
    have hb1 : Behind (St.mkSnap A s1) s1 := behind_mkSnap A s1
    unfold Mon snaps
    simp only [List.filterMap_cons, ha]
    refine ⟨?_, ?_⟩
    · cases hs : (s.acts.filterMap (·.snap)) with
      | nil => trivial
      | cons old rest =>
        refine ⟨?_, ?_⟩
        · have hbo : Behind old s := h.2 old (by unfold snaps; rw [hs]; rfl)
          have hbo1 : Behind old s1 := by
            refine ⟨?_, by rw [hc]; exact hbo.2⟩
            intro c hc1; rw [hc] at hc1
            obtain ⟨e, he, h1, h2, h3⟩ := hbo.1 c hc1
            exact ⟨e, he, h1, h2, by rw [hm]; exact h3⟩
          exact snapStep_of_behind A old s1 hbo1
        · have := h.1; unfold snaps at this; rw [hs] at this; exact this
    · intro sn hsn
      simp only [List.head?_cons, Option.some.injEq] at hsn
      rw [← hsn]
      exact hb1
  unfold St.logAct
  simp only
  split
  · exact hkey { s with rounds := s.rounds ++ [s.cands] } rfl rfl rfl
  · exact hkey s rfl rfl rfl

/-- a forward status update of the candidates with id `cid` keeps the newest snapshot behind the state -/
theorem Mon.upd_forward {s : St α} (h : Mon s) (cid : Nat) (f : Cand α → Cand α)
    (hcid : ∀ c, (f c).cid = c.cid)
    (hf : ∀ c ∈ s.cands, c.cid = cid → fwd (c.code s.method) ((f c).code s.method) = true) :
    Mon (s.upd cid f) := by
  refine ⟨h.1, ?_⟩
  intro sn hsn
  refine ⟨?_, ?_⟩
  · intro c' hc'
    obtain ⟨c, hc, rfl⟩ := mem_upd.1 hc'
    obtain ⟨e, he, h1, h2, h3⟩ := (h.2 sn hsn).1 c hc
    by_cases hcc : (c.cid == cid) = true
    · simp only [hcc, if_true]
      refine ⟨e, he, by rw [hcid]; exact h1, h2, ?_⟩
      exact fwd_trans _ h2 _ (code_mem _ _) _ (code_mem _ _) h3 (hf c hc (by simpa using hcc))
    · have hf' : (c.cid == cid) = false := by simpa using hcc
      simp only [hf', Bool.false_eq_true, if_false]
      exact ⟨e, he, h1, h2, h3⟩
  · intro e he
    obtain ⟨c, hc, hce⟩ := (h.2 sn hsn).2 e he
    refine ⟨if c.cid == cid then f c else c, mem_upd.2 ⟨c, hc, rfl⟩, ?_⟩
    split
    · rw [hcid]; exact hce
    · exact hce

/-- anything that leaves ids, statuses, method and the log alone preserves `Mon` -/
theorem Mon.of_skel {s t : St α} (h : Mon s) (hsk : t.skel = s.skel) (hm : t.method = s.method) (ha : t.acts = s.acts) :
    Mon t := by
  refine ⟨by rw [ha]; exact h.1, ?_⟩
  intro sn hsn
  rw [ha] at hsn
  refine ⟨?_, ?_⟩
  · intro c' hc'
    obtain ⟨c, hc, hcs⟩ := mem_of_skel_eq hsk hc'
    obtain ⟨e, he, h1, h2, h3⟩ := (h.2 sn hsn).1 c hc
    have hcode : c'.code t.method = c.code s.method := by
      unfold Cand.code
      rw [hm, ← (skel_st hcs).1, ← (skel_st hcs).2]
    exact ⟨e, he, h1.trans (skel_cid hcs), h2, by rw [hcode]; exact h3⟩
  · intro e he
    obtain ⟨c, hc, hce⟩ := (h.2 sn hsn).2 e he
    obtain ⟨c', hc', hcs⟩ := mem_of_skel_eq hsk.symm hc
    exact ⟨c', hc', (skel_cid hcs).trans hce⟩

theorem Mon.elect {s : St α} (h : Mon s) (cid : Nat) (verb : String) (p : Bool)
    (hhop : ∀ c ∈ s.cands, c.cid = cid → c.st = .hopeful) : Mon (s.elect A cid verb p) := by
  unfold St.elect
  apply Mon.logAct
  refine Mon.upd_forward h cid _ ?_ ?_
  · intro c; rfl
  intro c hc hcid
  have := hhop c hc hcid
  unfold Cand.code fwd
  simp only [this]
  split <;> simp

theorem Mon.defeat {s : St α} (h : Mon s) (cid : Nat) (verb : String)
    (hhop : ∀ c ∈ s.cands, c.cid = cid → c.st = .hopeful) : Mon (s.defeat A cid verb) := by
  unfold St.defeat
  apply Mon.logAct
  refine Mon.upd_forward h cid _ ?_ ?_
  · intro c; rfl
  intro c hc hcid
  have := hhop c hc hcid
  unfold Cand.code fwd
  simp [this]

theorem Mon.unpend {s : St α} (h : Mon s) (cid : Nat)
    (hel : ∀ c ∈ s.cands, c.cid = cid → c.st = .elected) : Mon (s.unpendSilent cid) := by
  unfold St.unpendSilent
  refine Mon.upd_forward h cid _ ?_ ?_
  · intro c; rfl
  intro c hc hcid
  have := hel c hc hcid
  unfold Cand.code fwd
  simp only [this, Bool.and_false, Bool.false_eq_true, if_false]
  split <;> simp

end Droop
