import DroopProofs.SeatsWigm

/-! # Termination measure for the Gregory main loops: 2·|hopeful| + |pending| -/
namespace Droop
variable {α : Type} [CommRing α] [LinearOrder α] [IsStrictOrderedRing α] (A : Arith α)

def rkSkel (k : Nat × Nat × Nat × Bool × CState × Bool) : Nat :=
  match k.2.2.2.2.1 with
  | .hopeful => 2
  | .elected => if k.2.2.2.2.2 then 1 else 0
  | _ => 0

def mu (s : St α) : Nat := (s.skel.map rkSkel).sum

def rk (c : Cand α) : Nat := rkSkel c.skel

theorem mu_eq (s : St α) : mu s = (s.cands.map rk).sum := by
  unfold mu St.skel rk; rw [List.map_map]; rfl

theorem mu_of_skel {s t : St α} (h : t.skel = s.skel) : mu t = mu s := by unfold mu; rw [h]

theorem mu_logAct (s : St α) (tag verb : String) (subj : List Nat) : mu (s.logAct A tag verb subj) = mu s := by
  apply mu_of_skel; unfold St.skel; rw [logAct_cands]
theorem mu_newRound (s : St α) : mu (s.newRound A) = mu s := by
  unfold St.newRound; rw [mu_logAct]; rfl
theorem mu_setCrash (s : St α) (k : String) : mu (s.setCrash k) = mu s := by
  unfold St.setCrash; split <;> rfl

theorem natsum_map_le {β} (l : List β) (f g : β → Nat) (h : ∀ x ∈ l, f x ≤ g x) :
    (l.map f).sum ≤ (l.map g).sum := by
  induction l with
  | nil => simp
  | cons a l ih =>
    simp only [List.map_cons, List.sum_cons]
    have := h a (by simp)
    have := ih (fun x hx => h x (by simp [hx]))
    omega

theorem natsum_map_lt {β} (l : List β) (f g : β → Nat) (h : ∀ x ∈ l, f x ≤ g x)
    (a : β) (ha : a ∈ l) (hlt : f a < g a) : (l.map f).sum < (l.map g).sum := by
  induction l with
  | nil => simp at ha
  | cons b l ih =>
    simp only [List.map_cons, List.sum_cons]
    have hb := h b (by simp)
    have hl := natsum_map_le l f g (fun x hx => h x (by simp [hx]))
    rcases List.mem_cons.mp ha with rfl | hin
    · omega
    · have := ih (fun x hx => h x (by simp [hx])) hin
      omega

/-- update of the (unique) candidate with id `a.cid` -/
theorem mu_upd_le (s : St α) (f : Cand α → Cand α) (a : Cand α) (hwf : s.WF) (ha : a ∈ s.cands)
    (hle : rk (f a) ≤ rk a) : mu (s.upd a.cid f) ≤ mu s := by
  rw [mu_eq, mu_eq]; unfold St.upd
  simp only [List.map_map]
  apply natsum_map_le
  intro c hc
  simp only [Function.comp]
  split
  · rename_i h
    have : c = a := nodup_cid_eq hwf hc ha (by simpa using h)
    subst this; exact hle
  · exact Nat.le_refl _

theorem mu_upd_lt (s : St α) (f : Cand α → Cand α) (a : Cand α) (hwf : s.WF) (ha : a ∈ s.cands)
    (hlt : rk (f a) < rk a) : mu (s.upd a.cid f) < mu s := by
  rw [mu_eq, mu_eq]; unfold St.upd
  simp only [List.map_map]
  apply natsum_map_lt _ _ _ _ a ha
  · simp [Function.comp, hlt]
  · intro c hc
    simp only [Function.comp]
    split
    · rename_i h
      have : c = a := nodup_cid_eq hwf hc ha (by simpa using h)
      subst this; exact Nat.le_of_lt hlt
    · exact Nat.le_refl _

theorem rk_hopeful {c : Cand α} (h : c.st = .hopeful) : rk c = 2 := by
  unfold rk rkSkel Cand.skel; simp [h]
theorem rk_pending {c : Cand α} (h : c.st = .elected) (hp : c.pending = true) : rk c = 1 := by
  unfold rk rkSkel Cand.skel; simp [h, hp]
theorem rk_elected_le (c : Cand α) (p : Bool) : rk ({ c with st := .elected, pending := p } : Cand α) ≤ 1 := by
  unfold rk rkSkel Cand.skel; simp; split <;> omega
theorem rk_defeated (c : Cand α) : rk ({ c with st := .defeated } : Cand α) = 0 := by
  unfold rk rkSkel Cand.skel; simp
theorem rk_unpend_elected {c : Cand α} (h : c.st = .elected) : rk ({ c with pending := false } : Cand α) = 0 := by
  unfold rk rkSkel Cand.skel; simp [h]

/-- electing a hopeful candidate strictly lowers the measure -/
theorem mu_elect_lt (s : St α) (a : Cand α) (verb : String) (p : Bool) (hwf : s.WF) (ha : a ∈ s.cands)
    (hh : a.st = .hopeful) : mu (s.elect A a.cid verb p) < mu s := by
  unfold St.elect; rw [mu_logAct]
  apply mu_upd_lt s _ a hwf ha
  rw [rk_hopeful hh]; exact Nat.lt_of_le_of_lt (rk_elected_le a p) (by omega)

theorem mu_defeat_lt (s : St α) (a : Cand α) (verb : String) (hwf : s.WF) (ha : a ∈ s.cands)
    (hh : a.st = .hopeful) : mu (s.defeat A a.cid verb) < mu s := by
  unfold St.defeat; rw [mu_logAct]
  apply mu_upd_lt s _ a hwf ha
  rw [rk_hopeful hh, rk_defeated]; omega

theorem mu_unpendLog_lt (s : St α) (a : Cand α) (verb : String) (hwf : s.WF) (ha : a ∈ s.cands)
    (he : a.st = .elected) (hp : a.pending = true) : mu (s.unpendLog A a.cid verb) < mu s := by
  unfold St.unpendLog; rw [mu_logAct]
  apply mu_upd_lt s _ a hwf ha
  rw [rk_pending he hp, rk_unpend_elected he]; omega

theorem mu_transferAll (s : St α) (cids : List Nat) (rew : α → α) : mu (transferAll A s cids rew) = mu s :=
  mu_of_skel (transferAll_skel A s cids rew)

theorem mu_transferSurplus (s : St α) (hc : Cand α) (rew : α → α → α → α) (verb : String) :
    mu (transferSurplus A s hc rew verb) = mu s := by
  unfold transferSurplus; dsimp only
  rw [mu_logAct]
  exact (mu_of_skel (setVote_skel _ _ _)).trans (mu_transferAll A s _ _)

theorem mu_foldl_setVote (l : List Nat) (s : St α) : mu (l.foldl (fun acc c => acc.setVote c A.zero) s) = mu s := by
  induction l generalizing s with
  | nil => rfl
  | cons c cs ih => simp only [List.foldl_cons]; rw [ih]; exact mu_of_skel (setVote_skel _ _ _)

theorem mu_transferDefeated (s : St α) (cids : List Nat) (verb : String) :
    mu (transferDefeated A s cids verb) = mu s := by
  unfold transferDefeated; dsimp only
  rw [mu_logAct, mu_foldl_setVote, mu_transferAll]

theorem mu_breakTie (s : St α) (tied : List (Cand α)) (verb : String) : mu (breakTie A s tied verb).1 = mu s := by
  apply mu_of_skel; unfold St.skel; rw [(breakTie_frame A s tied verb).1]

end Droop
