import DroopProofs.InvElect

/-! # wigm / wigm-prf rounds preserve the bundle (non-batch variants) -/
namespace Droop
variable {α : Type} [CommRing α] [LinearOrder α] [IsStrictOrderedRing α] (A : Arith α)

theorem setCrash_frame (s : St α) (k : String) :
    (s.setCrash k).cands = s.cands ∧ (s.setCrash k).ballots = s.ballots ∧ (s.setCrash k).exhausted = s.exhausted
    ∧ (s.setCrash k).quota = s.quota ∧ (s.setCrash k).nballots = s.nballots := by
  unfold St.setCrash; split <;> exact ⟨rfl, rfl, rfl, rfl, rfl⟩

theorem logAct_frame (s : St α) (tag verb : String) (subj : List Nat) :
    (s.logAct A tag verb subj).cands = s.cands ∧ (s.logAct A tag verb subj).ballots = s.ballots
    ∧ (s.logAct A tag verb subj).exhausted = s.exhausted ∧ (s.logAct A tag verb subj).quota = s.quota
    ∧ (s.logAct A tag verb subj).nballots = s.nballots := by
  unfold St.logAct; simp only; split <;> exact ⟨rfl, rfl, rfl, rfl, rfl⟩

theorem breakTie_frame (s : St α) (tied : List (Cand α)) (verb : String) :
    (breakTie A s tied verb).1.cands = s.cands ∧ (breakTie A s tied verb).1.ballots = s.ballots
    ∧ (breakTie A s tied verb).1.exhausted = s.exhausted ∧ (breakTie A s tied verb).1.quota = s.quota
    ∧ (breakTie A s tied verb).1.nballots = s.nballots := by
  unfold breakTie
  split
  · exact setCrash_frame s _
  · exact ⟨rfl, rfl, rfl, rfl, rfl⟩
  · exact logAct_frame A s _ _ _

theorem Inv.breakTie {s : St α} (h : Inv A s) (tied : List (Cand α)) (verb : String) :
    Inv A (Droop.breakTie A s tied verb).1 := by
  unfold Droop.breakTie
  split
  · exact h.setCrash A _
  · exact h
  · exact h.logAct A _ _ _

theorem breakTie_mem (s : St α) (tied : List (Cand α)) (verb : String) (c : Cand α)
    (h : (breakTie A s tied verb).2 = some c) : c ∈ tied := by
  unfold breakTie at h
  split at h
  · cases h
  · cases h; simp
  · have : c ∈ byTieOrder tied := List.mem_of_head? h
    exact (mem_pySorted _ _ _ _).1 this

theorem transferSurplus_congr (s : St α) (c x : Cand α) (rew : α → α → α → α) (verb : String)
    (hc : x.cid = c.cid) (hv : x.vote = c.vote) :
    transferSurplus A s c rew verb = transferSurplus A s x rew verb := by
  unfold transferSurplus; rw [hc, hv]

theorem mem_pendingL {s : St α} {c : Cand α} : c ∈ s.pendingL ↔ c ∈ s.cands ∧ c.st = .elected ∧ c.pending = true := by
  unfold St.pendingL; simp

theorem Inv.wigmSurplusStep (hA : LawfulArith A) {s : St α} (h : Inv A s) : Inv A (Droop.wigmSurplusStep A s) := by
  unfold Droop.wigmSurplusStep
  cases hm : maxVoteOf A s.pendingL with
  | none => exact h
  | some hv =>
    simp only
    have hI1 := h.breakTie A (s.pendingL.filter (fun c => A.eq c.vote hv)) "Break tie (surplus)"
    have hfr := breakTie_frame A s (s.pendingL.filter (fun c => A.eq c.vote hv)) "Break tie (surplus)"
    have hmem := breakTie_mem A s (s.pendingL.filter (fun c => A.eq c.vote hv)) "Break tie (surplus)"
    cases hb : Droop.breakTie A s (s.pendingL.filter (fun c => A.eq c.vote hv)) "Break tie (surplus)" with
    | mk s1 oc =>
      rw [hb] at hI1 hfr hmem
      cases oc with
      | none => exact hI1
      | some hc =>
        simp only
        have hcm := hmem hc rfl
        rw [List.mem_filter] at hcm
        obtain ⟨hcs, hce, hcp⟩ := mem_pendingL.1 hcm.1
        obtain ⟨e1, e2, e3, e4, e5⟩ := hfr
        have hcs1 : hc ∈ s1.cands := by simp only at e1; rw [e1]; exact hcs
        -- after un-pending
        have h2 := hI1.unpendLog A hc.cid "Transfer high surplus"
        let x : Cand α := { hc with pending := false }
        have hx : x ∈ (s1.unpendLog A hc.cid "Transfer high surplus").cands := by
          unfold St.unpendLog; rw [logAct_cands]
          exact mem_upd_of_eq (f := fun c => { c with pending := false }) hcs1 rfl
        rw [transferSurplus_congr A _ hc x (rewMulDiv A) _ rfl rfl]
        apply h2.transferSurplus A hA (rewMulDiv A) (rewMulDiv_law A hA) x _ hx
        · intro hs
          rcases hs with hs | ⟨_, hp⟩
          · have : x.st = .elected := hce
            rw [this] at hs; cases hs
          · simp [x] at hp
        · have : x.st = .elected := hce
          rw [this]; intro hh; cases hh
        · -- tally unchanged by logging / un-pending
          have ht : (s1.unpendLog A hc.cid "Transfer high surplus").tally A x.cid = s.tally A hc.cid := by
            unfold St.tally St.unpendLog
            rw [logAct_ballots]
            show (List.map _ s1.ballots).sum = _
            simp only at e2; rw [e2]
          rw [ht]
          exact h.i1 hc hcs (Or.inr ⟨hce, hcp⟩)
        · have hq : (s1.unpendLog A hc.cid "Transfer high surplus").quota = s.quota := by
            unfold St.unpendLog; rw [logAct_quota]; simp only at e4; exact e4
          rw [hq]
          exact h.pq hc hcs hce hcp

theorem Inv.wigmDefeatStep1 (hA : LawfulArith A) (o : WigmOpts) (hz : o.batchZero = false) {s : St α} (h : Inv A s) :
    Inv A (Droop.wigmDefeatStep A o s) := by
  unfold Droop.wigmDefeatStep
  cases hm : minVoteOf A s.hopeful with
  | none => exact h
  | some lv =>
    simp only [hz, Bool.and_false, Bool.false_and, Bool.false_eq_true, if_false]
    have hI1 := h.breakTie A (s.hopeful.filter (fun c => A.eq c.vote lv)) "Break tie (defeat)"
    have hfr := breakTie_frame A s (s.hopeful.filter (fun c => A.eq c.vote lv)) "Break tie (defeat)"
    have hmem := breakTie_mem A s (s.hopeful.filter (fun c => A.eq c.vote lv)) "Break tie (defeat)"
    cases hb : Droop.breakTie A s (s.hopeful.filter (fun c => A.eq c.vote lv)) "Break tie (defeat)" with
    | mk s1 oc =>
      rw [hb] at hI1 hfr hmem
      cases oc with
      | none => exact hI1
      | some lc =>
        simp only
        have hcm := hmem lc rfl
        rw [List.mem_filter] at hcm
        obtain ⟨hcs, hch⟩ := mem_hopeful.1 hcm.1
        obtain ⟨e1, e2, e3, e4, e5⟩ := hfr
        have hcs1 : lc ∈ s1.cands := by simp only at e1; rw [e1]; exact hcs
        have h2 := hI1.defeat A lc.cid "Defeat"
        let x : Cand α := { lc with st := .defeated }
        have hx : x ∈ (s1.defeat A lc.cid "Defeat").cands := by
          unfold St.defeat; rw [logAct_cands]
          exact mem_upd_of_eq (f := fun c => { c with st := .defeated }) hcs1 rfl
        have := h2.transferDefeated1 A hA x "Transfer defeated" hx
          (by intro hs; rcases hs with hs | ⟨hs, _⟩ <;> simp [x] at hs)
          (by simp [x])
          (by
            have ht : (s1.defeat A lc.cid "Defeat").tally A x.cid = s.tally A lc.cid := by
              unfold St.tally St.defeat
              rw [logAct_ballots]
              show (List.map _ s1.ballots).sum = _
              simp only at e2; rw [e2]
            rw [ht]
            exact h.i1 lc hcs (Or.inl hch))
        exact this

end Droop
