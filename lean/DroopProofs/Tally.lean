import DroopProofs.Transfer
import Mathlib.Algebra.Group.Basic
import Mathlib.Algebra.BigOperators.Group.List.Basic
import Mathlib.Tactic.Abel

/-! # Votes after transferAll: old vote plus the values of the ballots that arrived -/
namespace Droop
variable {α : Type} [AddCommGroup α] (A : Arith α)

/-- the arithmetic's `add`/`sub`/`zero` are the group operations (true of all three instances) -/
structure LawfulAdd (A : Arith α) : Prop where
  add_eq : ∀ a b, A.add a b = a + b
  sub_eq : ∀ a b, A.sub a b = a - b
  zero_eq : A.zero = 0

def St.voteOf (s : St α) (d : Nat) : α :=
  match s.cand? d with
  | some c => c.vote
  | none => 0

theorem find_map_upd (l : List (Cand α)) (cid d : Nat) (f : Cand α → Cand α) (hf : ∀ c, (f c).cid = c.cid) :
    (l.map (fun c => if c.cid == cid then f c else c)).find? (fun c => c.cid == d)
      = (l.find? (fun c => c.cid == d)).map (fun c => if c.cid == cid then f c else c) := by
  induction l with
  | nil => rfl
  | cons x xs ih =>
    simp only [List.map_cons, List.find?_cons]
    have hx : ((if x.cid == cid then f x else x).cid == d) = (x.cid == d) := by
      split <;> simp [hf]
    rw [hx]
    split
    · simp
    · exact ih

theorem cand?_upd (s : St α) (cid d : Nat) (f : Cand α → Cand α) (hf : ∀ c, (f c).cid = c.cid) :
    (s.upd cid f).cand? d = (s.cand? d).map (fun c => if c.cid == cid then f c else c) :=
  find_map_upd s.cands cid d f hf

theorem voteOf_addVote (hA : LawfulAdd A) (s : St α) (c d : Nat) (v : α) (hc : (s.cand? c).isSome) :
    (s.addVote A c v).voteOf d = s.voteOf d + (if c = d then v else 0) := by
  have hupd : (s.addVote A c v).cand? d
      = (s.cand? d).map (fun x => if x.cid == c then { x with vote := A.add x.vote v } else x) :=
    cand?_upd s c d (fun x => { x with vote := A.add x.vote v }) (fun _ => rfl)
  unfold St.voteOf
  rw [hupd]
  by_cases hcd : c = d
  · subst hcd
    cases hfind : s.cand? c with
    | none => simp [hfind] at hc
    | some x =>
      have hx : (x.cid == c) = true := by
        unfold St.cand? at hfind
        have := List.find?_some hfind; simpa using this
      have hx' : x.cid = c := by simpa using hx
      simp [hx', hA.add_eq]
  · cases hfind : s.cand? d with
    | none => simp [hcd]
    | some x =>
      have hx : x.cid = d := by
        unfold St.cand? at hfind
        have := List.find?_some hfind; simpa using this
      have hne : ¬ x.cid = c := by rw [hx]; exact fun h => hcd h.symm
      simp [hne, hcd]

theorem voteOf_exhausted (s : St α) (e : α) (d : Nat) : ({ s with exhausted := e } : St α).voteOf d = s.voteOf d := rfl

/-- what ballot `b` contributes to candidate `d` during `transferAll s cids rew` -/
def contrib (s : St α) (cids : List Nat) (rew : α → α) (d : Nat) (b : Ballot α) : α :=
  match b.top with
  | some c => if cids.contains c then
                (if (moveBallot s cids rew b).top = some d then bvote A (moveBallot s cids rew b) else 0)
              else 0
  | none => 0

/-- every candidate id on a ballot exists -/
def BallotsWF (s : St α) : Prop := ∀ b ∈ s.ballots, ∀ cid ∈ b.rank, (s.cand? cid).isSome

theorem cand?_isSome_of_skel {s t : St α} (h : s.skel = t.skel) (cid : Nat) :
    (s.cand? cid).isSome = (t.cand? cid).isSome := by
  unfold St.cand?
  have : ∀ (l : List (Cand α)), (l.find? (fun c => c.cid == cid)).isSome
      = (l.map Cand.skel).any (fun k => k.1 == cid) := by
    intro l; induction l with
    | nil => rfl
    | cons c cs ih =>
      simp only [List.find?_cons, List.map_cons, List.any_cons]
      by_cases hc : (c.cid == cid) = true
      · simp [hc, Cand.skel]
      · simp only [Bool.not_eq_true] at hc
        simp [hc, ih, Cand.skel]
  rw [this, this]; unfold St.skel at h; rw [h]

theorem top_mem_rank (b : Ballot α) (c : Nat) (h : b.top = some c) : c ∈ b.rank := by
  unfold Ballot.top at h
  exact List.mem_of_getElem? h

theorem advanceTo_rank (cont : Nat → Bool) (b : Ballot α) : (advanceTo cont b).rank = b.rank := by
  unfold advanceTo; split <;> rfl

theorem tstep_voteOf (hA : LawfulAdd A) (cids : List Nat) (rew : α → α) (s : St α)
    (acc : St α × List (Ballot α)) (b : Ballot α) (d : Nat)
    (h : acc.1.skel = s.skel) (hb : ∀ cid ∈ b.rank, (s.cand? cid).isSome) :
    (tstep A cids rew acc b).1.voteOf d = acc.1.voteOf d + contrib A s cids rew d b := by
  have hfun : (fun cid => acc.1.isHopeful cid) = (fun cid => s.isHopeful cid) := by
    funext cid; exact isHopeful_of_skel h cid
  unfold tstep contrib moveBallot
  cases htop : b.top with
  | none => simp
  | some c =>
    by_cases hc : cids.contains c = true
    · simp only [hc, if_true]
      unfold transferBallot
      rw [hfun]
      cases hnew : (advanceTo (fun cid => s.isHopeful cid) { b with w := rew b.w }).top with
      | none => simp [voteOf_exhausted]
      | some c' =>
        have hmem : c' ∈ b.rank := by
          have := top_mem_rank _ _ hnew
          rwa [advanceTo_rank] at this
        have hsome : (acc.1.cand? c').isSome := by
          rw [cand?_isSome_of_skel h]; exact hb c' hmem
        simp only
        rw [voteOf_addVote A hA _ _ _ _ hsome]
        by_cases hcd : c' = d
        · simp [hcd]
        · have : ¬ (some c' = some d) := by simpa using hcd
          simp [hcd]
    · have hc' : ¬ c ∈ cids := by simpa using hc
      simp [hc']

theorem foldl_tstep_voteOf (hA : LawfulAdd A) (cids : List Nat) (rew : α → α) (s : St α) (d : Nat)
    (bs : List (Ballot α)) (acc : St α × List (Ballot α))
    (h : acc.1.skel = s.skel) (hb : ∀ b ∈ bs, ∀ cid ∈ b.rank, (s.cand? cid).isSome) :
    (bs.foldl (tstep A cids rew) acc).1.voteOf d = acc.1.voteOf d + (bs.map (contrib A s cids rew d)).sum := by
  induction bs generalizing acc with
  | nil => simp
  | cons b bs ih =>
    simp only [List.foldl_cons, List.map_cons, List.sum_cons]
    rw [ih _ (by rw [tstep_skel]; exact h) (fun b' hb' => hb b' (by simp [hb'])),
        tstep_voteOf A hA cids rew s acc b d h (hb b (by simp))]
    abel

/-- **votes after a transfer** = votes before + value of the ballots that arrived -/
theorem transferAll_voteOf (hA : LawfulAdd A) (s : St α) (hwf : BallotsWF s) (cids : List Nat) (rew : α → α) (d : Nat) :
    (transferAll A s cids rew).voteOf d = s.voteOf d + (s.ballots.map (contrib A s cids rew d)).sum := by
  have := foldl_tstep_voteOf A hA cids rew s d s.ballots (s, []) rfl hwf
  simpa [transferAll, St.voteOf, St.cand?] using this

end Droop
