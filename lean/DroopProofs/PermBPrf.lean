import DroopProofs.PermBMeek

/-! # C10 for meek-prf: the order of the ballot lines does not matter

Same argument as for meek / warren (`PermBMeek.lean`): a ballot's step in the reference rule's distribution (`prfBallotStep`)
is blind to any state transformer that commutes with `addVote`, keeps the keep factors and commutes with a residual increment;
so two ballots' steps commute and the step does not care how the list is stored.  The reference rule never reads equal
rankings, so there is no side condition at all. -/
namespace Droop
variable {α : Type} [CommRing α] [LinearOrder α] [IsStrictOrderedRing α] (A : Arith α)

theorem prfRankStep_blind {g : St α → St α} (hg : Blind A g) (mult : α) (a : St α × α × α × Bool) (cid : Nat) :
    prfRankStep A mult (g a.1, a.2) cid = (g (prfRankStep A mult a cid).1, (prfRankStep A mult a cid).2) := by
  unfold prfRankStep
  simp only [hg.kf]
  by_cases hs : a.2.2.2 = true
  · simp only [hs, if_true]
  · simp only [hs, Bool.false_eq_true, if_false]
    cases kfOf a.1 cid with
    | none => rfl
    | some k =>
      simp only
      by_cases hz : A.isZero k = true
      · simp only [hz, if_true]
      · simp only [hz, Bool.false_eq_true, if_false, hg.add]

theorem foldRankPrf_blind {g : St α → St α} (hg : Blind A g) (mult : α) (rank : List Nat) (a : St α × α × α × Bool) :
    rank.foldl (prfRankStep A mult) (g a.1, a.2)
      = (g (rank.foldl (prfRankStep A mult) a).1, (rank.foldl (prfRankStep A mult) a).2) := by
  induction rank generalizing a with
  | nil => rfl
  | cons c cs ih =>
    simp only [List.foldl_cons]
    rw [prfRankStep_blind A hg, ih]

theorem prfBallotStep_blind {g : St α → St α} (hg : Blind A g) (s : St α) (b : Ballot α) :
    prfBallotStep A (g s) b = g (prfBallotStep A s b) := by
  unfold prfBallotStep
  have h := foldRankPrf_blind A hg (A.ofInt b.mult) b.rank (s, A.one, A.ofInt b.mult, false)
  simp only at h
  rw [h]
  exact (hg.res _ _).symm

theorem kfOf_prfRankStep (mult : α) (a : St α × α × α × Bool) (cid c : Nat) :
    kfOf (prfRankStep A mult a cid).1 c = kfOf a.1 c := by
  unfold prfRankStep
  split
  · rfl
  · split
    · split
      · rfl
      · exact kfOf_addVote A _ _ _ _
    · rfl

theorem kfOf_foldRankPrf (mult : α) (rank : List Nat) (a : St α × α × α × Bool) (c : Nat) :
    kfOf (rank.foldl (prfRankStep A mult) a).1 c = kfOf a.1 c := by
  induction rank generalizing a with
  | nil => rfl
  | cons x xs ih => simp only [List.foldl_cons]; rw [ih, kfOf_prfRankStep]

theorem kfOf_prfBallotStep (s : St α) (b : Ballot α) (c : Nat) : kfOf (prfBallotStep A s b) c = kfOf s c := by
  unfold prfBallotStep
  exact kfOf_foldRankPrf A (A.ofInt b.mult) b.rank (s, A.one, A.ofInt b.mult, false) c

theorem blind_prfBallotStep (hA : LawfulArith A) (b : Ballot α) : Blind A (fun st => prfBallotStep A st b) :=
  ⟨fun st c v => prfBallotStep_blind A (blind_addVote A hA c v) st b,
   fun st c => kfOf_prfBallotStep A st b c,
   fun st x => prfBallotStep_blind A (blind_residual A hA x) st b⟩

theorem prfBallotStep_comm (hA : LawfulArith A) (s : St α) (b b' : Ballot α) :
    prfBallotStep A (prfBallotStep A s b) b' = prfBallotStep A (prfBallotStep A s b') b :=
  prfBallotStep_blind A (blind_prfBallotStep A hA b) s b'

theorem foldl_prfBallotStep_perm (hA : LawfulArith A) {l l' : List (Ballot α)} (hp : l'.Perm l) (st : St α) :
    l'.foldl (prfBallotStep A) st = l.foldl (prfBallotStep A) st :=
  hp.foldl_eq' (fun x _ y _ z => prfBallotStep_comm A hA z x y) st

/-- what a transformation of the ballot list must satisfy for a meek-prf count to commute with it -/
structure XPrf (fb : List (Ballot α) → List (Ballot α)) (fw : List (Nat × α) → List (Nat × α)) : Prop extends XF A fb fw where
  prf : ∀ (st : St α) (l : List (Ballot α)), (fb l).foldl (prfBallotStep A) st = l.foldl (prfBallotStep A) st
  pfirst : ∀ (st : St α) (l : List (Ballot α)), (fb l).foldl (mfcStep A) st = l.foldl (mfcStep A) st
  nil : fw [] = []

variable {fb : List (Ballot α) → List (Ballot α)} {fw : List (Nat × α) → List (Nat × α)}

theorem xB_logMsg' (hx : XPrf A fb fw) (s : St α) (verb : String) (subj : List Nat) (v : Option α) :
    xB fb fw (s.logMsg verb subj v) = (xB fb fw s).logMsg verb subj v := by
  unfold St.logMsg xB
  simp only [List.map_cons, hx.nil]

/-- the distribution of one iteration -/
def prfS2 (s : St α) : St α :=
  ({ zeroActiveVotes A s with residual := A.zero } : St α).ballots.foldl (prfBallotStep A) { zeroActiveVotes A s with residual := A.zero }

theorem xB_prfS2 (hx : XPrf A fb fw) (s : St α) : prfS2 A (xB fb fw s) = xB fb fw (prfS2 A s) := by
  unfold prfS2
  show (fb s.ballots).foldl (prfBallotStep A) (xB fb fw { zeroActiveVotes A s with residual := A.zero }) = _
  rw [hx.prf]
  have key : ∀ (bs : List (Ballot α)) (t : St α), bs.foldl (prfBallotStep A) (xB fb fw t) = xB fb fw (bs.foldl (prfBallotStep A) t) := by
    intro bs
    induction bs with
    | nil => intro t; rfl
    | cons b bs ih => intro t; simp only [List.foldl_cons]; rw [prfBallotStep_blind A (blind_xB A), ih]
  exact key _ _

/-- totals and quota recomputed -/
def prfS4 (s : St α) : St α :=
  { ({ prfS2 A s with votes := activeVotes A (prfS2 A s) } : St α) with
    quota := A.add (A.fdivV (activeVotes A (prfS2 A s)) (A.ofInt ((prfS2 A s).seats + 1))) A.eps }

def prfWinners (s : St α) : List (Cand α) := (prfS4 A s).hopeful.filter (fun c => A.ge c.vote (prfS4 A s).quota)

def prfS5 (s : St α) : St α := (prfWinners A s).foldl (fun acc c => acc.elect A c.cid "Elect" false) (prfS4 A s)

def prfS6 (s : St α) : St α :=
  { prfS5 A s with surplus := if A.lt (A.sum ((prfS5 A s).elected.map (fun c => A.sub c.vote (prfS5 A s).quota))) A.zero then A.zero
                              else A.sum ((prfS5 A s).elected.map (fun c => A.sub c.vote (prfS5 A s).quota)) }

theorem prfIterate_succ (omega : α) (fuel : Nat) (last : α) (s : St α) :
    prfIterate A omega (fuel + 1) last s =
      if !(prfWinners A s).isEmpty then (prfS6 A s, .elected)
      else if A.lt (prfS6 A s).surplus omega then (prfS6 A s, .omega)
      else if A.ge (prfS6 A s).surplus last then ((prfS6 A s).logMsg "Stable state detected" [] (some (prfS6 A s).surplus), .stable)
      else if (kfUpdate A false (prfS6 A s)).crash.isSome then (kfUpdate A false (prfS6 A s), .stable)
      else prfIterate A omega fuel (prfS6 A s).surplus (kfUpdate A false (prfS6 A s)) := rfl

theorem xB_prfS4 (hx : XPrf A fb fw) (s : St α) : prfS4 A (xB fb fw s) = xB fb fw (prfS4 A s) := by
  unfold prfS4
  rw [xB_prfS2 A hx]
  rfl

theorem xB_prfS5 (hx : XPrf A fb fw) (s : St α) : prfS5 A (xB fb fw s) = xB fb fw (prfS5 A s) := by
  unfold prfS5 prfWinners
  rw [xB_prfS4 A hx, xB_foldElect A hx.toXF]
  rfl

theorem prfWinners_xB (hx : XPrf A fb fw) (s : St α) : prfWinners A (xB fb fw s) = prfWinners A s := by
  unfold prfWinners
  rw [xB_prfS4 A hx]
  rfl

theorem xB_prfS6 (hx : XPrf A fb fw) (s : St α) : prfS6 A (xB fb fw s) = xB fb fw (prfS6 A s) := by
  unfold prfS6
  rw [xB_prfS5 A hx]
  rfl

theorem xB_prfIterate (hx : XPrf A fb fw) (omega : α) :
    ∀ (fuel : Nat) (last : α) (s : St α),
      prfIterate A omega fuel last (xB fb fw s)
        = (xB fb fw (prfIterate A omega fuel last s).1, (prfIterate A omega fuel last s).2) := by
  intro fuel
  induction fuel with
  | zero =>
    intro last s
    show ((xB fb fw s).setCrash "FUEL", PStatus.stable) = (xB fb fw (s.setCrash "FUEL"), PStatus.stable)
    rw [xB_setCrash]
  | succ n ih =>
    intro last s
    rw [prfIterate_succ, prfIterate_succ, prfWinners_xB A hx, xB_prfS6 A hx]
    have hsp : (xB fb fw (prfS6 A s)).surplus = (prfS6 A s).surplus := rfl
    simp only [hsp, xB_kfUpdate, crash_xB]
    by_cases h1 : (!(prfWinners A s).isEmpty) = true
    · simp only [h1, if_true]
    · simp only [h1, Bool.false_eq_true, if_false]
      by_cases h2 : A.lt (prfS6 A s).surplus omega = true
      · simp only [h2, if_true]
      · simp only [h2, Bool.false_eq_true, if_false]
        by_cases h3 : A.ge (prfS6 A s).surplus last = true
        · simp only [h3, if_true]
          rw [xB_logMsg' A hx]
        · simp only [h3, Bool.false_eq_true, if_false]
          by_cases h5 : (kfUpdate A false (prfS6 A s)).crash.isSome = true
          · simp only [h5, if_true]
          · simp only [h5, Bool.false_eq_true, if_false]
            exact ih _ _

theorem xB_prfBody (hx : XPrf A fb fw) (omega : α) (iterFuel : Nat) (s : St α) :
    prfBody A omega iterFuel (xB fb fw s) = (xB fb fw (prfBody A omega iterFuel s).1, (prfBody A omega iterFuel s).2) := by
  unfold prfBody
  simp only
  rw [← xB_newRound A hx.toXF]
  have hnb : (xB fb fw (s.newRound A)).nballots = (s.newRound A).nballots := rfl
  rw [hnb, xB_prfIterate A hx]
  generalize prfIterate A omega iterFuel (A.ofInt (s.newRound A).nballots) (s.newRound A) = r
  obtain ⟨t, st⟩ := r
  simp only [crash_xB, hopeful_xB]
  by_cases hc : t.crash.isSome = true
  · simp only [hc, if_true]
  · simp only [hc, Bool.false_eq_true, if_false]
    by_cases he : (st == PStatus.elected) = true
    · simp only [he, if_true]
    · simp only [he, Bool.false_eq_true, if_false]
      cases hh : t.hopeful with
      | nil => rfl
      | cons h hs =>
        simp only
        have hsp : (xB fb fw t).surplus = t.surplus := rfl
        rw [hsp, xB_breakTie A hx.toXF]
        cases hb : breakTie A t (List.filter (fun c => A.ge (A.add (A.vMin h.vote (hs.map (·.vote))) t.surplus) c.vote) (h :: hs))
            "Break tie (defeat low candidate)" with
        | mk s3 oc =>
          cases oc with
          | none => rfl
          | some lc =>
            simp only
            rw [← xB_defeat A hx.toXF]
            rfl

/-- the state `prfCount` builds before the first count: keep factors 1, total votes, quota -/
def prfS3 (s0 : St α) : St α :=
  let s1 : St α := { s0 with cands := s0.cands.map (fun (c : Cand α) => if c.st == .hopeful then { c with kf := some A.one } else c) }
  let s2 : St α := { s1 with votes := A.ofInt s1.nballots }
  { s2 with quota := A.add (A.divV s2.votes (A.ofInt (s2.seats + 1))) A.eps }

/-- the inline prologue of `prfCount` (same text) -/
def prfStart (s0 : St α) : St α :=
  let s1 : St α := { s0 with cands := s0.cands.map (fun (c : Cand α) => if c.st == .hopeful then { c with kf := some A.one } else c) }
  let s2 : St α := { s1 with votes := A.ofInt s1.nballots }
  let s3 : St α := { s2 with quota := A.add (A.divV s2.votes (A.ofInt (s2.seats + 1))) A.eps }
  let s4 : St α := s3.ballots.foldl (fun (acc : St α) (b : Ballot α) => match b.top with
                                           | some c => acc.addVote A c (A.ofInt b.mult)
                                           | none => acc) s3
  s4.logAct A "begin" "Begin Count" []

theorem prfStart_eq (s0 : St α) :
    prfStart A s0 = ((prfS3 A s0).ballots.foldl (mfcStep A) (prfS3 A s0)).logAct A "begin" "Begin Count" [] := rfl

/-- the inline epilogue of `prfCount` (same text) -/
def prfFinish (s6 : St α) : St α :=
  if s6.crash.isSome then s6 else
  let s7 := s6.hopeful.foldl (fun acc c =>
    if acc.elected.length < acc.seats then acc.elect A c.cid "Elect remaining" false
    else (acc.defeat A c.cid "Defeat remaining").upd c.cid (fun x => { x with kf := some A.zero, vote := A.zero })) s6
  let v := A.sum (s7.elected.map (·.vote))
  { s7 with votes := v, residual := A.sub (A.ofInt s7.nballots) v }

theorem prfCount_eq (iterFuel : Nat) (s0 : St α) :
    prfCount A iterFuel s0 =
      (loopN stdGuard (prfBody A (A.divV (A.ofInt 1) (A.ofInt (10 ^ 6))) iterFuel) (2 * s0.cands.length + 3) (prfStart A s0)).map
        (prfFinish A) := by
  unfold prfCount prfStart prfFinish
  dsimp only
  cases loopN stdGuard (prfBody A (A.divV (A.ofInt 1) (A.ofInt (10 ^ 6))) iterFuel) (2 * s0.cands.length + 3) _ with
  | none => rfl
  | some s6 =>
    simp only [Option.map_some]
    split <;> rfl

theorem xB_prfStart (hx : XPrf A fb fw) (s0 : St α) : prfStart A (xB fb fw s0) = xB fb fw (prfStart A s0) := by
  rw [prfStart_eq, prfStart_eq, xB_logAct A hx.toXF]
  congr 1
  have h3 : prfS3 A (xB fb fw s0) = xB fb fw (prfS3 A s0) := rfl
  rw [h3, ballots_xB, hx.pfirst]
  have key : ∀ (bs : List (Ballot α)) (t : St α), bs.foldl (mfcStep A) (xB fb fw t) = xB fb fw (bs.foldl (mfcStep A) t) := by
    intro bs
    induction bs with
    | nil => intro t; rfl
    | cons b bs ih =>
      intro t
      simp only [List.foldl_cons]
      rw [← ih]
      congr 1
      unfold mfcStep
      cases b.top <;> rfl
  exact key _ _

theorem xB_prfFinish (hx : XPrf A fb fw) (s6 : St α) : prfFinish A (xB fb fw s6) = xB fb fw (prfFinish A s6) := by
  unfold prfFinish
  by_cases hc : s6.crash.isSome = true
  · rw [if_pos (show (xB fb fw s6).crash.isSome = true from hc), if_pos hc]
  · rw [if_neg (show ¬ (xB fb fw s6).crash.isSome = true from hc), if_neg hc]
    simp only [hopeful_xB]
    have key : ∀ (l : List (Cand α)) (t : St α),
        l.foldl (fun acc c =>
          if acc.elected.length < acc.seats then acc.elect A c.cid "Elect remaining" false
          else (acc.defeat A c.cid "Defeat remaining").upd c.cid (fun x => { x with kf := some A.zero, vote := A.zero })) (xB fb fw t)
        = xB fb fw (l.foldl (fun acc c =>
          if acc.elected.length < acc.seats then acc.elect A c.cid "Elect remaining" false
          else (acc.defeat A c.cid "Defeat remaining").upd c.cid (fun x => { x with kf := some A.zero, vote := A.zero })) t) := by
      intro l
      induction l with
      | nil => intro t; rfl
      | cons c cs ih =>
        intro t
        simp only [List.foldl_cons]
        rw [← ih]
        congr 1
        by_cases hlt : t.elected.length < t.seats
        · rw [if_pos (show (xB fb fw t).elected.length < (xB fb fw t).seats from hlt), if_pos hlt, xB_elect A hx.toXF]
        · rw [if_neg (show ¬ (xB fb fw t).elected.length < (xB fb fw t).seats from hlt), if_neg hlt, xB_upd, xB_defeat A hx.toXF]
    rw [key]
    rfl

/-- **C10 for meek-prf, run level**: no hypothesis on the state -/
theorem prf_xB (hx : XPrf A fb fw) (iterFuel : Nat) (s0 : St α) :
    prfCount A iterFuel (xB fb fw s0) = (prfCount A iterFuel s0).map (xB fb fw) := by
  rw [prfCount_eq, prfCount_eq]
  have hlen : (xB fb fw s0).cands.length = s0.cands.length := rfl
  rw [hlen, xB_prfStart A hx, loopN_xB stdGuard (prfBody A _ iterFuel) stdGuard_xB (xB_prfBody A hx _ iterFuel)]
  cases loopN stdGuard (prfBody A (A.divV (A.ofInt 1) (A.ofInt (10 ^ 6))) iterFuel) (2 * s0.cands.length + 3) (prfStart A s0) with
  | none => rfl
  | some s6 => simp only [Option.map_some]; rw [xB_prfFinish A hx]

theorem XPrf_of_natPerm (hA : LawfulArith A) {π : ∀ {β : Type}, List β → List β} (hπ : NatPerm π) :
    XPrf A (π (β := Ballot α)) (π (β := Nat × α)) :=
  { toXF := XF_of_natPerm A hA hπ
    prf := fun st l => foldl_prfBallotStep_perm A hA (hπ.perm l) st
    pfirst := fun st l => foldl_mfcStep_perm A hA (hπ.perm l) st
    nil := List.Perm.eq_nil (hπ.perm []) }

end Droop
