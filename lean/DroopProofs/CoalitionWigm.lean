import DroopProofs.CoalitionScot

/-! # C05, wigm / wigm-prf (single exclusions: no `defeat_batch=zero`, no sure-loser batch) -/
namespace Droop
variable {α : Type} [CommRing α] [LinearOrder α] [IsStrictOrderedRing α] (A : Arith α)
variable {S : List Nat} {m : Nat} {kk k : Nat} {u nV : α} {N : Nat}

section wigm
variable (hA : LawfulArith A) (hqc : QuotaComplete A) (hu : 0 ≤ u) (hlow : RewLower A u (rewMulDiv A)) (hkk : kk ≤ k)
include hA hu hlow

theorem CInv.wigmSurplusStep {s : St α} (h : CInv A S m kk k u nV N s) (hI : Inv A s) (hq1 : A.one ≤ s.quota) :
    CInv A S m kk k u nV N (Droop.wigmSurplusStep A s) := by
  rcases wigmSurplusStep_cases A s with ⟨_, e⟩ | ⟨tied, hsub, ⟨_, e⟩ | ⟨hc, hb, e⟩⟩
  · rw [e]; exact h
  · rw [e]; exact h.breakTie A _ _
  · rw [e]
    obtain ⟨hm, hcs1⟩ := breakTie_picked A tied _ hc hb (fun x hx => (mem_pendingL.1 (hsub x hx)).1)
    obtain ⟨_, hce, hcp⟩ := mem_pendingL.1 (hsub hc hm)
    have hq' : A.one ≤ (Droop.breakTie A s tied "Break tie (surplus)").1.quota := by
      rw [(breakTie_frame A s tied _).2.2.2.1]; exact hq1
    exact CInv.unpendTransfer A hA hu _ hlow (h.breakTie A tied _) (hI.breakTie A tied _) hq' hc hcs1 hce hcp _ _

include hkk in
theorem CInv.wigmDefeatStep1 (o : WigmOpts) (hz : o.batchZero = false) {s : St α} (h : CInv A S m kk k u nV N s)
    (hI : Inv A s) (hpend : s.pendingL = []) (hbelow : ∀ c ∈ s.hopeful, c.vote ≤ s.quota) :
    CInv A S m kk k u nV N (Droop.wigmDefeatStep A o s) := by
  rcases wigmDefeatStep_cases A o hz s with ⟨_, e⟩ | ⟨tied, hsub, ⟨_, e⟩ | ⟨lc, hb, e⟩⟩
  · rw [e]; exact h
  · rw [e]; exact h.breakTie A _ _
  · rw [e]
    obtain ⟨hm, hcs1⟩ := breakTie_picked A tied _ lc hb (fun x hx => (mem_hopeful.1 (hsub x hx)).1)
    obtain ⟨_, hch⟩ := mem_hopeful.1 (hsub lc hm)
    obtain ⟨e1, e2, _, e4, _⟩ := breakTie_frame A s tied "Break tie (defeat)"
    have h' := h.breakTie A tied "Break tie (defeat)"
    have hI' := hI.breakTie A tied "Break tie (defeat)"
    have hlc' : lc ∈ (Droop.breakTie A s tied "Break tie (defeat)").1.hopeful := mem_hopeful.2 ⟨hcs1, hch⟩
    apply CInv.defeatTransfer1 A hA h' hI' hkk lc hlc'
    apply CInv.safe A hA hu h' hI' ?_ ?_ lc hlc'
    · unfold St.pendingL at hpend ⊢; rw [e1]; exact hpend
    · intro c hc
      rw [e4]; apply hbelow
      unfold St.hopeful at hc ⊢; rw [← e1]; exact hc

include hqc hkk in
theorem CInv.wigmBody (o : WigmOpts) (hz : o.batchZero = false) (hnb : o.prfBatch = false)
    (hex : o.prf = true → A.exact = false) {s : St α} (hI : Inv A s) (h : CInv A S m kk k u nV N s)
    (hq1 : A.one ≤ s.quota) : CInv A S m kk k u nV N (Droop.wigmBody A o s).1 := by
  have hI1 : Inv A (s.newRound A) := hI.newRound A
  have h1 : CInv A S m kk k u nV N (s.newRound A) := h.newRound A
  have hsound : ∀ c, (if o.prf then hasQuotaGE A else hasQuotaX A) (s.newRound A) c = true → (s.newRound A).quota ≤ c.vote := by
    intro c hc
    by_cases hp : o.prf = true
    · simp only [hp, if_true] at hc; exact hasQuotaGE_sound A hA (hex hp) _ c hc
    · simp only [hp, Bool.false_eq_true, if_false] at hc; exact hasQuotaX_sound A hA _ c hc
  have h2 : CInv A S m kk k u nV N (wigmElect A o (s.newRound A)) := by
    unfold wigmElect electWinners
    obtain ⟨hnd, hw⟩ := electWinners_list A (if o.prf then hasQuotaGE A else hasQuotaX A) hI1.wf hsound
    exact h1.foldElect A hA hI1 _ _ hnd hw
  have hI2 : Inv A (wigmElect A o (s.newRound A)) := hI1.wigmElect A hA o hex
  have hF2 : Frame s (wigmElect A o (s.newRound A)) := (frame_newRound A s).trans (frame_wigmElect A o _)
  have hbelow2 : ∀ c ∈ (wigmElect A o (s.newRound A)).hopeful, c.vote ≤ (wigmElect A o (s.newRound A)).quota := by
    intro c hc
    have := electWinners_rest_below A (if o.prf then hasQuotaGE A else hasQuotaX A) (fun _ _ => true)
      (fun _ _ => "Elect, transfer pending") hI1.wf c (by unfold wigmElect at hc; exact hc)
    rw [(frame_wigmElect A o _).1]
    have hf := this.2
    by_cases hp : o.prf = true
    · simp only [hp, if_true] at hf; exact hqc.1 _ _ hf
    · simp only [hp, Bool.false_eq_true, if_false] at hf
      unfold hasQuotaX at hf
      split at hf
      · exact hqc.2 _ _ hf
      · exact hqc.1 _ _ hf
  have hq2 : A.one ≤ (wigmElect A o (s.newRound A)).quota := by rw [hF2.1]; exact hq1
  unfold Droop.wigmBody
  generalize wigmElect A o (s.newRound A) = s2 at *
  unfold Droop.wigmAfterElect
  have hsure : wigmSure A o s2 = [] := by unfold wigmSure; simp [hnb]
  rw [hsure]
  simp only [List.isEmpty_nil, Bool.not_true, Bool.false_eq_true, if_false]
  split
  · exact CInv.wigmSurplusStep A hA hu hlow h2 hI2 hq2
  · rename_i hp
    have hpend : s2.pendingL = [] := by
      cases hl : s2.pendingL with
      | nil => rfl
      | cons x xs => rw [hl] at hp; simp at hp
    split
    · exact CInv.wigmDefeatStep1 A hA hu hlow hkk o hz h2 hI2 hpend hbelow2
    · exact h2

end wigm

/-- **the epilogue of wigm**: with the loop guard off, `kk` coalition members hopeful or elected, and `kk` of them elected
    if the seats are all taken, `kk` of them are elected at the end -/
theorem epilogue_elS {s : St α} (hg : Good A s) (hguard : stdGuard s = false) (hle : nEl s ≤ s.seats)
    (halive : kk ≤ hopS S s + elS S s) (hfull : s.seats ≤ nEl s → kk ≤ elS S s) :
    kk ≤ elS S (epilogueElectOrDefeat A s) := by
  unfold epilogueElectOrDefeat
  dsimp only
  have hg5 := hg.foldUnpend A
  obtain ⟨u1, u2, u3⟩ := counts_foldUnpend s.pendingL s
  obtain ⟨v1, v2⟩ := countsS_foldUnpend (S := S) s.pendingL s
  generalize s.pendingL.foldl (fun acc c => acc.unpendSilent c.cid) s = s5 at *
  unfold stdGuard St.seatsLeft at hguard
  simp only [Bool.and_eq_false_iff, decide_eq_false_iff_not, not_lt] at hguard
  by_cases hfit : nEl s5 + nHop s5 ≤ s5.seats
  · -- everybody left is elected
    have := foldl_hopefuls
      (fun n t => t.WF ∧ t.seats = s5.seats ∧ nEl t + n ≤ t.seats ∧ nHop t = n
        ∧ hopS S t + elS S t = hopS S s5 + elS S s5)
      (fun acc c => if acc.elected.length < acc.seats then acc.elect A c.cid "Elect remaining" false
        else acc.defeat A c.cid "Defeat remaining")
      (by
        intro n t w hP hwm hwh
        obtain ⟨hwf', hs, hn, hh, ha⟩ := hP
        have hlt : t.elected.length < t.seats := by unfold nEl at hn; omega
        simp only [hlt, if_true]
        obtain ⟨c1, c2⟩ := countsS_elect (S := S) A hwf' w hwm hwh "Elect remaining" false
        obtain ⟨d1, d2⟩ := counts_elect A t w "Elect remaining" false hwf' hwm hwh
        refine ⟨⟨WF_elect A hwf' _ _ _, ?_, ?_, by omega, by omega⟩, fun c hc' hne => mem_elect_of_ne A hc' _ _ _ hne⟩
        · rw [(frame_elect A t w.cid _ _).2.1]; exact hs
        · rw [(frame_elect A t w.cid _ _).2.1]; omega)
      s5.hopeful (hopeful_cids_nodup hg5.1.wf) (fun w hw => mem_hopeful.1 hw)
      ⟨hg5.1.wf, rfl, by unfold nHop at hfit; omega, rfl, rfl⟩
    obtain ⟨_, _, _, h0, ha⟩ := this
    have := hopS_le_nHop (S := S) (s5.hopeful.foldl (fun acc c =>
      if acc.elected.length < acc.seats then acc.elect A c.cid "Elect remaining" false
      else acc.defeat A c.cid "Defeat remaining") s5)
    omega
  · -- the seats are all taken: everybody left is defeated
    have hfl : s5.seats ≤ nEl s5 := by
      unfold nHop nEl at *
      rw [u3] at *
      rcases hguard with h1 | h1 <;> omega
    have := foldl_hopefuls
      (fun _ t => t.WF ∧ t.seats = s5.seats ∧ s5.seats ≤ nEl t ∧ elS S t = elS S s5)
      (fun acc c => if acc.elected.length < acc.seats then acc.elect A c.cid "Elect remaining" false
        else acc.defeat A c.cid "Defeat remaining")
      (by
        intro n t w hP hwm hwh
        obtain ⟨hwf', hs, hn, ha⟩ := hP
        have hlt : ¬ t.elected.length < t.seats := by unfold nEl at hn; omega
        simp only [hlt, if_false]
        obtain ⟨_, c2⟩ := countsS_defeat (S := S) A hwf' w hwm hwh "Defeat remaining"
        obtain ⟨_, d2⟩ := counts_defeat A t w "Defeat remaining" hwf' hwm hwh
        refine ⟨⟨WF_defeat A hwf' _ _, ?_, by omega, by omega⟩, fun c hc' hne => mem_defeat_of_ne A hc' _ _ hne⟩
        rw [(frame_defeat A t w.cid _).2.1]; exact hs)
      s5.hopeful (hopeful_cids_nodup hg5.1.wf) (fun w hw => mem_hopeful.1 hw)
      ⟨hg5.1.wf, rfl, hfl, rfl⟩
    rw [this.2.2.2, v2]
    apply hfull
    rw [← u2, ← u3]; exact hfl

/-- **C05, wigm / wigm-prf with single exclusions** -/
theorem wigm_coalition (hA : LawfulArith A) (hqc : QuotaComplete A) (hu : 0 ≤ u) (hlow : RewLower A u (rewMulDiv A))
    (o : WigmOpts) (hz : o.batchZero = false) (hnb : o.prfBatch = false) (hex : o.prf = true → A.exact = false)
    (s0 t : St α) (h0 : GStart A (wigmQuota A o s0) s0) (hc : CStart A S m kk k u (wigmQuota A o s0) s0)
    (h : wigmCount A o s0 = some t) (hcr : t.crash = none) : kk ≤ elS S t := by
  unfold wigmCount at h
  cases hl : loopN stdGuard (wigmBody A o) (2 * s0.cands.length + 3) (wigmInit A o s0) with
  | none => rw [hl] at h; cases h
  | some s4 =>
    rw [hl] at h
    have ht : t = epilogueElectOrDefeat A s4 := (Option.some.inj h).symm
    have hinit : WigmInv A (wigmInit A o s0) ∧ CInv A S m kk k u (Vmult S m s0) s0.cands.length (wigmInit A o s0)
        ∧ A.one ≤ (wigmInit A o s0).quota := by
      refine ⟨WigmInv.init A hA o h0, ?_, ?_⟩
      · rw [wigmInit_eq]; exact CInv.gInit A hA _ hc
      · rw [wigmInit_eq, (gInit_facts A _ s0).2.2.2.1]; exact hc.q1
    have hP := loopN_preserves_guard
      (fun s => WigmInv A s ∧ CInv A S m kk k u (Vmult S m s0) s0.cands.length s ∧ A.one ≤ s.quota)
      stdGuard (wigmBody A o)
      (fun s hs hg => ⟨(wigmBody_spec A hA o hz hex hs.1 hg).1,
        CInv.wigmBody A hA hqc hu hlow hc.kk_le o hz hnb hex hs.1.1.1 hs.2.1 hs.2.2,
        by rw [(frame_wigmBody A o s).1]; exact hs.2.2⟩) _ _ _ hinit hl
    obtain ⟨⟨hE, hM, hD, hJ⟩, hC4, _⟩ := hP
    have hel : nEl s4 ≤ s4.seats := elected_le_seats A hE.1 hE.2 hD
    rw [ht] at hcr ⊢
    rw [epilogue_crash] at hcr
    have hg : stdGuard s4 = false := by
      rcases loopN_exit
        (fun s => WigmInv A s ∧ CInv A S m kk k u (Vmult S m s0) s0.cands.length s ∧ A.one ≤ s.quota)
        stdGuard (wigmBody A o)
        (fun s hs hg => ⟨(wigmBody_spec A hA o hz hex hs.1 hg).1,
          CInv.wigmBody A hA hqc hu hlow hc.kk_le o hz hnb hex hs.1.1.1 hs.2.1 hs.2.2,
          by rw [(frame_wigmBody A o s).1]; exact hs.2.2⟩) _ _ _ hinit hl with hx | hx | ⟨s', _, _, hb⟩
      · rw [hcr] at hx; simp at hx
      · exact hx
      · -- the single-exclusion configurations never leave the loop by `break`
        have := wigmBody_cont A o ⟨hz, hnb⟩ s'
        rw [hb] at this; cases this
    exact epilogue_elS A ⟨hE.1, hM⟩ hg hel hC4.alive (fun hfull => hC4.full A hA hu hE.1 hE.2 hD hc.kk_le hfull)

end Droop
