import DroopProofs.MeekRun
import DroopProofs.RunCommon
import DroopProofs.InvBatch
import DroopProofs.CoalitionScot

/-! # C09 for meek and warren: the record only moves forward (strict rankings)

`Mon` (the log is monotone, its newest snapshot is behind the state) is carried through every step of the Meek / Warren driver
next to `MInv` (which supplies distinct ids and "no equal rankings").  Distributions, quota and keep-factor updates leave ids and
statuses alone; elections address hopeful (or already elected) candidates, exclusions hopeful ones — the ids come from the
hopeful list, from the tie-break among hopefuls, or from the safe batch, which is a sublist of the hopefuls. -/
namespace Droop
variable {α : Type} [CommRing α] [LinearOrder α] [IsStrictOrderedRing α] (A : Arith α)

theorem snaps_logMsg (s : St α) (verb : String) (subj : List Nat) (v : Option α) :
    snaps (s.logMsg verb subj v).acts = snaps s.acts := by
  unfold St.logMsg snaps
  simp only [List.filterMap_cons]

theorem Mon.logMsg {s : St α} (h : Mon s) (verb : String) (subj : List Nat) (v : Option α) : Mon (s.logMsg verb subj v) := by
  unfold Mon at *
  rw [snaps_logMsg]
  exact h

theorem Mon.distribute (hA : LawfulArith A) (w : Bool) {s : St α} (h : Mon s) (hwf : s.WF) (hq : s.ballotsEq = []) :
    Mon (distributeVotes A w s) := by
  have hf := distributeVotes_frame A w s hq
  exact Mon.of_skel h (distributeVotes_skel A w s hwf hq hA) hf.2.2.2.1 hf.2.2.2.2

/-- candidates with these ids are hopeful or already elected -/
def HopOrEl (s : St α) (ids : List Nat) : Prop := ∀ i ∈ ids, ∀ c ∈ s.cands, c.cid = i → c.st = .hopeful ∨ c.st = .elected

theorem HopOrEl.elect {s : St α} {ids : List Nat} (h : HopOrEl s ids) (cid : Nat) (verb : String) (p : Bool) :
    HopOrEl (s.elect A cid verb p) ids := by
  intro i hi c' hc' hci
  unfold St.elect at hc'
  rw [logAct_cands] at hc'
  obtain ⟨c, hc, rfl⟩ := mem_upd.1 hc'
  by_cases he : (c.cid == cid) = true
  · rw [if_pos he]; exact Or.inr rfl
  · rw [if_neg he] at hci ⊢
    exact h i hi c hc hci

theorem Mon.foldElectNP {s : St α} (h : Mon s) (ws : List (Cand α)) (verb : String)
    (hst : HopOrEl s (ws.map (·.cid))) : Mon (ws.foldl (fun acc c => acc.elect A c.cid verb false) s) := by
  induction ws generalizing s with
  | nil => exact h
  | cons w ws ih =>
    simp only [List.foldl_cons]
    apply ih (h.electNP A w.cid verb (fun c hc hcc => hst w.cid (by simp) c hc hcc))
    have := HopOrEl.elect A hst w.cid verb false
    intro i hi
    exact this i (by simp only [List.map_cons, List.mem_cons]; right; exact hi)

theorem Mon.meekIterCore (hA : LawfulArith A) (o : MeekOpts) {s : St α} (h : Mon s) (hI : MInv A s) :
    Mon (Droop.meekIterCore A o s) := by
  unfold Droop.meekIterCore
  dsimp only
  have hd := h.distribute A hA o.warren hI.wf hI.noEq
  apply Mon.setSurplus
  apply Mon.foldElectNP
  · exact Mon.of_skel (Mon.of_skel hd (t := (distributeVotes A o.warren s).setVotes _) rfl rfl rfl) rfl rfl rfl
  · intro i hi c hc hci
    obtain ⟨w, hw, rfl⟩ := List.mem_map.1 hi
    unfold meekWinners at hw
    have hwh := mem_hopeful.1 (List.mem_filter.1 hw).1
    left
    have hwf : (distributeVotes A o.warren s).WF := WF_of_skel (distributeVotes_skel A o.warren s hI.wf hI.noEq hA).symm hI.wf
    have : c = w := nodup_cid_eq hwf hc hwh.1 hci
    rw [this]; exact hwh.2

theorem Mon.kfStep (cap : Bool) {s : St α} (h : Mon s) (c : Cand α) : Mon (Droop.kfStep A cap s c) := by
  unfold Droop.kfStep
  split
  · split
    · exact h.setCrash _
    · exact Mon.of_skel h (upd_kf_skel s c.cid _) rfl rfl
  · exact h.setCrash _

theorem Mon.kfUpdate (cap : Bool) {s : St α} (h : Mon s) : Mon (Droop.kfUpdate A cap s) := by
  rw [kfUpdate_eq]
  generalize s.elected = l
  induction l generalizing s with
  | nil => exact h
  | cons c cs ih => simp only [List.foldl_cons]; exact ih (h.kfStep A cap c)

theorem Mon.meekIterate (hA : LawfulArith A) (o : MeekOpts) (omega : α) :
    ∀ (fuel : Nat) (last : α) (s : St α), Mon s → MInv A s → Mon (Droop.meekIterate A o omega fuel last s).1 := by
  intro fuel
  induction fuel with
  | zero => intro last s h _; exact h
  | succ n ih =>
    intro last s h hI
    unfold Droop.meekIterate
    have hc := h.meekIterCore A hA o hI
    have hIc := hI.meekIterCore A hA o
    repeat' split
    all_goals first
      | exact hc
      | exact hc.logMsg _ _ _
      | exact hc.kfUpdate A true
      | exact ih _ _ (hc.kfUpdate A true) (hIc.kfUpdate A true)

/-- the batch the iteration hands over consists of ids of hopeful candidates of the state it returns -/
theorem meekIterate_batch (o : MeekOpts) (omega : α) :
    ∀ (fuel : Nat) (last : α) (s : St α) (cids : List Nat),
      (Droop.meekIterate A o omega fuel last s).2 = .batch cids →
      ∀ i ∈ cids, ∃ w ∈ (Droop.meekIterate A o omega fuel last s).1.hopeful, w.cid = i := by
  intro fuel
  induction fuel with
  | zero => intro last s cids h; cases h
  | succ n ih =>
    intro last s cids h
    unfold Droop.meekIterate at h ⊢
    by_cases h1 : meekIterElected A o s = true
    · rw [if_pos h1] at h; cases h
    · rw [if_neg h1] at h ⊢
      by_cases h2 : A.le (meekIterCore A o s).surplus omega = true
      · rw [if_pos h2] at h; cases h
      · rw [if_neg h2] at h ⊢
        by_cases h3 : A.ge (meekIterCore A o s).surplus last = true
        · rw [if_pos h3] at h; cases h
        · rw [if_neg h3] at h ⊢
          by_cases h4 : (!(if o.batchSafe then batchDefeatGroups A (meekIterCore A o s) (meekIterCore A o s).surplus else []).isEmpty) = true
          · rw [if_pos h4] at h ⊢
            have hcids : cids = (if o.batchSafe then batchDefeatGroups A (meekIterCore A o s) (meekIterCore A o s).surplus else []).map (·.cid) := by
              have h' : IStatus.batch ((if o.batchSafe then batchDefeatGroups A (meekIterCore A o s) (meekIterCore A o s).surplus else []).map (·.cid))
                  = IStatus.batch cids := h
              injection h' with h''
              exact h''.symm
            intro i hi
            rw [hcids] at hi
            obtain ⟨w, hw, rfl⟩ := List.mem_map.1 hi
            refine ⟨w, ?_, rfl⟩
            by_cases hb : o.batchSafe = true
            · rw [if_pos hb] at hw
              exact batchDefeatGroups_hopeful A _ _ w hw
            · rw [if_neg hb] at hw; cases hw
          · rw [if_neg h4] at h ⊢
            by_cases h5 : (kfUpdate A true (meekIterCore A o s)).crash.isSome = true
            · rw [if_pos h5] at h; cases h
            · rw [if_neg h5] at h ⊢
              exact ih _ _ cids h

/-- exclusion in the Meek rules: `defeat`, keep factor and tally to zero, redistribute -/
theorem Mon.meekDefeatOne (hA : LawfulArith A) (hz : A.isZero A.zero = true) (o : MeekOpts) {s : St α} (h : Mon s) (hI : MInv A s)
    (cid : Nat) (verb : String) (hhop : ∀ c ∈ s.cands, c.cid = cid → c.st = .hopeful) :
    Mon (Droop.meekDefeatOne A o s cid verb) := by
  unfold Droop.meekDefeatOne
  have hpre := hI.defeatZero A hA hz cid verb
  apply Mon.distribute A hA o.warren _ hpre.wf hpre.noEq
  have hd := h.defeat A cid verb hhop
  refine Mon.of_skel hd ?_ rfl rfl
  unfold St.skel St.upd
  simp only [List.map_map]
  apply List.map_congr_left
  intro c _
  simp only [Function.comp]
  split <;> rfl

/-- statuses of candidates with other ids are untouched by an exclusion -/
theorem meekDefeatOne_other (hA : LawfulArith A) (o : MeekOpts) {s : St α} (hwf : s.WF) (hq : s.ballotsEq = []) (cid : Nat) (verb : String)
    (i : Nat) (hne : i ≠ cid) (hh : ∀ c ∈ s.cands, c.cid = i → c.st = .hopeful) :
    ∀ c ∈ (Droop.meekDefeatOne A o s cid verb).cands, c.cid = i → c.st = .hopeful := by
  intro c' hc' hci
  unfold Droop.meekDefeatOne at hc'
  have hq' : ((s.defeat A cid verb).upd cid (fun c => { c with kf := some A.zero, vote := A.zero })).ballotsEq = [] := by
    unfold St.defeat St.logAct; simp only; split <;> exact hq
  have hcands : ((s.defeat A cid verb).upd cid (fun c => { c with kf := some A.zero, vote := A.zero })).cands
      = s.cands.map (fun c => if c.cid == cid then { c with st := .defeated, kf := some A.zero, vote := A.zero } else c) := by
    unfold St.defeat St.upd
    rw [logAct_cands]
    simp only [List.map_map]
    apply List.map_congr_left
    intro c _
    simp only [Function.comp]
    by_cases he : (c.cid == cid) = true
    · simp [he]
    · simp [he]
  have hwf' : ((s.defeat A cid verb).upd cid (fun c => { c with kf := some A.zero, vote := A.zero })).WF := by
    unfold St.WF; rw [hcands, List.map_map]
    have : ((fun c : Cand α => c.cid) ∘ fun c : Cand α => if c.cid == cid then { c with st := .defeated, kf := some A.zero, vote := A.zero } else c)
        = fun c : Cand α => c.cid := by funext c; simp only [Function.comp]; split <;> rfl
    rw [this]; exact hwf
  have hsk := distributeVotes_skel A o.warren _ hwf' hq' hA
  obtain ⟨c1, hc1, hs1⟩ := mem_of_skel_eq hsk hc'
  rw [hcands] at hc1
  obtain ⟨c0, hc0, rfl⟩ := List.mem_map.1 hc1
  have hcid1 := skel_cid hs1
  have hst1 := (skel_st hs1).1
  by_cases he : (c0.cid == cid) = true
  · simp only [he, if_true] at hcid1 hst1
    have h0 : c0.cid = cid := by simpa using he
    have : i = cid := by
      rw [← hci]
      first | exact hcid1.trans h0 | exact hcid1.symm.trans h0
    exact absurd this hne
  · have hf : (c0.cid == cid) = false := by simpa using he
    simp only [hf, Bool.false_eq_true, if_false] at hcid1 hst1
    have hc0i : c0.cid = i := by first | exact hcid1.trans hci | exact hcid1.symm.trans hci
    first | (rw [← hst1]; exact hh c0 hc0 hc0i) | (rw [hst1]; exact hh c0 hc0 hc0i)

/-- a sequence of exclusions of distinct hopeful candidates -/
theorem Mon.foldDefeatOne (hA : LawfulArith A) (hz : A.isZero A.zero = true) (o : MeekOpts) (verb : String) (l : List (Cand α))
    (hnd : (l.map (·.cid)).Nodup) {s : St α} (h : Mon s) (hI : MInv A s)
    (hh : ∀ w ∈ l, ∀ c ∈ s.cands, c.cid = w.cid → c.st = .hopeful) :
    Mon (l.foldl (fun acc c => Droop.meekDefeatOne A o acc c.cid verb) s) := by
  induction l generalizing s with
  | nil => exact h
  | cons w ws ih =>
    simp only [List.foldl_cons]
    simp only [List.map_cons, List.nodup_cons] at hnd
    apply ih hnd.2 (h.meekDefeatOne A hA hz o hI w.cid verb (hh w (by simp))) (hI.meekDefeatOne A hA hz o w.cid verb)
    intro w' hw'
    apply meekDefeatOne_other A hA o hI.wf hI.noEq w.cid verb w'.cid
    · intro e
      exact hnd.1 (e ▸ List.mem_map.2 ⟨w', hw', rfl⟩)
    · exact hh w' (by simp [hw'])

theorem Mon.meekDefeatBatch (hA : LawfulArith A) (hz : A.isZero A.zero = true) (o : MeekOpts) {s : St α} (h : Mon s) (hI : MInv A s)
    (cids : List Nat) (hc : ∀ i ∈ cids, ∃ w ∈ s.hopeful, w.cid = i) : Mon (Droop.meekDefeatBatch A o s cids) := by
  unfold Droop.meekDefeatBatch
  have hperm := pySorted_perm (fun a b : Cand α => a.order < b.order) false (s.cands.filter (fun c => cids.contains c.cid))
  apply Mon.foldDefeatOne A hA hz o _ _ _ h hI
  · intro w hw c hcm hcc
    have hw' : w ∈ s.cands.filter (fun c => cids.contains c.cid) := (mem_pySorted _ _ _ _).1 hw
    obtain ⟨hws, hwc⟩ := List.mem_filter.1 hw'
    obtain ⟨v, hv, hvc⟩ := hc w.cid (by simpa using hwc)
    obtain ⟨hvs, hvh⟩ := mem_hopeful.1 hv
    have : c = v := nodup_cid_eq hI.wf hcm hvs (hcc.trans hvc.symm)
    rw [this]; exact hvh
  · have hsub : ((s.cands.filter (fun c => cids.contains c.cid)).map (·.cid)).Nodup :=
      List.Nodup.sublist (List.Sublist.map _ List.filter_sublist) hI.wf
    exact (List.Perm.nodup_iff (hperm.map _)).2 hsub

theorem Mon.meekDefeatLow (hA : LawfulArith A) (hz : A.isZero A.zero = true) (o : MeekOpts) {s : St α} (h : Mon s) (hI : MInv A s)
    (b : Bool) : Mon (Droop.meekDefeatLow A o s b).1 := by
  unfold Droop.meekDefeatLow
  split
  · exact h
  · rename_i hd hs _
    have hbt := h.breakTie A (s.hopeful.filter (fun c => A.ge (A.add (A.vMin hd.vote (hs.map (·.vote))) s.surplus) c.vote)) "Break tie (defeat)"
    have hIb := hI.breakTie A (s.hopeful.filter (fun c => A.ge (A.add (A.vMin hd.vote (hs.map (·.vote))) s.surplus) c.vote)) "Break tie (defeat)"
    have hfr := (breakTie_frame A s (s.hopeful.filter (fun c => A.ge (A.add (A.vMin hd.vote (hs.map (·.vote))) s.surplus) c.vote)) "Break tie (defeat)").1
    have hmem := breakTie_mem A s (s.hopeful.filter (fun c => A.ge (A.add (A.vMin hd.vote (hs.map (·.vote))) s.surplus) c.vote)) "Break tie (defeat)"
    cases hb : Droop.breakTie A s (s.hopeful.filter (fun c => A.ge (A.add (A.vMin hd.vote (hs.map (·.vote))) s.surplus) c.vote)) "Break tie (defeat)" with
    | mk s3 oc =>
      rw [hb] at hbt hIb hfr hmem
      cases oc with
      | none => exact hbt
      | some lc =>
        apply hbt.meekDefeatOne A hA hz o hIb lc.cid _
        intro c hc hcc
        obtain ⟨hls, hlh⟩ := mem_hopeful.1 (List.mem_filter.1 (hmem lc rfl)).1
        simp only at hfr
        rw [hfr] at hc
        have : c = lc := nodup_cid_eq hI.wf hc hls hcc
        rw [this]; exact hlh

theorem Mon.meekBody (hA : LawfulArith A) (hz : A.isZero A.zero = true) (o : MeekOpts) (omega : α) (fuel : Nat) {s : St α}
    (h : Mon s) (hI : MInv A s) : Mon (Droop.meekBody A o omega fuel s).1 := by
  unfold Droop.meekBody
  have hr := Mon.meekIterate A hA o omega fuel (A.ofInt (s.newRound A).nballots) _ (h.newRound A) (hI.newRound A)
  have hIr := MInv.meekIterate A hA o omega fuel (A.ofInt (s.newRound A).nballots) _ (hI.newRound A)
  have hbatch := meekIterate_batch A o omega fuel (A.ofInt (s.newRound A).nballots) (s.newRound A)
  generalize Droop.meekIterate A o omega fuel (A.ofInt (s.newRound A).nballots) (s.newRound A) = r at hr hIr hbatch
  obtain ⟨t, st⟩ := r
  unfold Droop.meekAfterIterate
  cases st with
  | fuel => exact hr.setCrash _
  | crash => exact hr
  | elected => exact hr.logAct A _ _ _
  | batch cids =>
    apply Mon.meekDefeatBatch A hA hz o (hr.logAct A _ _ _) (hIr.logAct A _ _ _)
    intro i hi
    obtain ⟨w, hw, hwc⟩ := hbatch cids rfl i hi
    refine ⟨w, ?_, hwc⟩
    unfold St.hopeful at hw ⊢
    rw [logAct_cands]; exact hw
  | omega => exact Mon.meekDefeatLow A hA hz o (hr.logAct A _ _ _) (hIr.logAct A _ _ _) true
  | stable => exact Mon.meekDefeatLow A hA hz o (hr.logAct A _ _ _) (hIr.logAct A _ _ _) false

/-- statuses of candidates with other ids are untouched by a late election -/
theorem electDist_other (hA : LawfulArith A) (o : MeekOpts) {s : St α} (hwf : s.WF) (hq : s.ballotsEq = []) (cid : Nat) (verb : String)
    (i : Nat) (hne : i ≠ cid) (hh : ∀ c ∈ s.cands, c.cid = i → c.st = .hopeful) :
    ∀ c ∈ (distributeVotes A o.warren (s.elect A cid verb false)).cands, c.cid = i → c.st = .hopeful := by
  intro c' hc' hci
  have hq' : (s.elect A cid verb false).ballotsEq = [] := by unfold St.elect St.logAct; simp only; split <;> exact hq
  have hwf' : (s.elect A cid verb false).WF := WF_elect A hwf _ _ _
  have hsk := distributeVotes_skel A o.warren _ hwf' hq' hA
  obtain ⟨c1, hc1, hs1⟩ := mem_of_skel_eq hsk hc'
  unfold St.elect at hc1
  rw [logAct_cands] at hc1
  obtain ⟨c0, hc0, rfl⟩ := mem_upd.1 hc1
  have hcid1 := skel_cid hs1
  have hst1 := (skel_st hs1).1
  by_cases he : (c0.cid == cid) = true
  · rw [if_pos he] at hcid1
    have h0 : c0.cid = cid := by simpa using he
    have : i = cid := by
      rw [← hci]
      first | exact hcid1.trans h0 | exact hcid1.symm.trans h0
    exact absurd this hne
  · rw [if_neg he] at hcid1 hst1
    have hc0i : c0.cid = i := by first | exact hcid1.trans hci | exact hcid1.symm.trans hci
    first | (rw [← hst1]; exact hh c0 hc0 hc0i) | (rw [hst1]; exact hh c0 hc0 hc0i)

theorem Mon.foldRemainingM (hA : LawfulArith A) (hz : A.isZero A.zero = true) (o : MeekOpts) (l : List (Cand α))
    (hnd : (l.map (·.cid)).Nodup) {s : St α} (h : Mon s) (hI : MInv A s)
    (hh : ∀ w ∈ l, ∀ c ∈ s.cands, c.cid = w.cid → c.st = .hopeful) :
    Mon (l.foldl (Droop.meekRemainingStep A o) s) := by
  induction l generalizing s with
  | nil => exact h
  | cons w ws ih =>
    simp only [List.foldl_cons]
    simp only [List.map_cons, List.nodup_cons] at hnd
    have hne : ∀ w' ∈ ws, w'.cid ≠ w.cid := fun w' hw' e => hnd.1 (e ▸ List.mem_map.2 ⟨w', hw', rfl⟩)
    have hI' := hI.meekRemainingStep A hA hz o w
    unfold Droop.meekRemainingStep at hI' ⊢
    by_cases hlt : s.elected.length < s.seats
    · rw [if_pos hlt] at hI' ⊢
      apply ih hnd.2 _ hI'
      · intro w' hw'
        exact electDist_other A hA o hI.wf hI.noEq w.cid _ w'.cid (hne w' hw') (hh w' (by simp [hw']))
      · have he := h.electNP A w.cid "Elect remaining" (fun c hc hcc => Or.inl (hh w (by simp) c hc hcc))
        have hIe := hI.elect A w.cid "Elect remaining" false
        exact he.distribute A hA o.warren hIe.wf hIe.noEq
    · rw [if_neg hlt] at hI' ⊢
      apply ih hnd.2 (h.meekDefeatOne A hA hz o hI w.cid _ (hh w (by simp))) hI'
      intro w' hw'
      exact meekDefeatOne_other A hA o hI.wf hI.noEq w.cid _ w'.cid (hne w' hw') (hh w' (by simp [hw']))

theorem Mon.meekEpilogue (hA : LawfulArith A) (hz : A.isZero A.zero = true) (o : MeekOpts) {s : St α} (h : Mon s) (hI : MInv A s) :
    Mon (Droop.meekEpilogue A o s) := by
  unfold Droop.meekEpilogue
  split
  · exact h
  · unfold meekFinal
    apply Mon.of_skel _ rfl rfl rfl
    apply Mon.of_skel _ rfl rfl rfl
    apply Mon.foldRemainingM A hA hz o _ _ h hI
    · intro w hw c hc hcc
      obtain ⟨hws, hwh⟩ := mem_hopeful.1 hw
      have : c = w := nodup_cid_eq hI.wf hc hws hcc
      rw [this]; exact hwh
    · unfold St.hopeful
      exact List.Nodup.sublist (List.Sublist.map _ List.filter_sublist) hI.wf

theorem mfcStep_acts (s : St α) (b : Ballot α) : (mfcStep A s b).acts = s.acts := by
  unfold mfcStep; split <;> rfl

theorem foldl_mfcStep_acts (bs : List (Ballot α)) (s : St α) : (bs.foldl (mfcStep A) s).acts = s.acts := by
  induction bs generalizing s with
  | nil => rfl
  | cons b bs ih => simp only [List.foldl_cons]; rw [ih, mfcStep_acts]

theorem Mon.meekInit {s0 : St α} (h0 : MInit A s0) : Mon (Droop.meekInit A s0) := by
  unfold Droop.meekInit
  apply Mon.logAct
  apply Mon.of_noActs
  have e := meekFirstCount_eq A
    (((s0.setVotes (A.ofInt s0.nballots)).setQuota (meekQuota A (s0.setVotes (A.ofInt s0.nballots)))).initKf A.one) h0.noEq
  rw [e, foldl_mfcStep_acts]
  exact h0.noActs

/-- **C09 for meek and warren, run level**: whatever the count returns, its record is forward-only (every candidate's status
    code only moves forward from snapshot to snapshot, no candidate disappears) and the newest snapshot is behind the final state -/
theorem meek_record_monotone (hA : LawfulArith A) (hz : A.isZero A.zero = true) (o : MeekOpts) (iterFuel : Nat) (s0 t : St α)
    (h0 : MInit A s0) (h : meekCount A o iterFuel s0 = some t) : Mon t := by
  unfold meekCount at h
  by_cases hn : (A.name == "integer") = true
  · rw [if_pos hn] at h
    have ht : t = s0.setCrash "AssertionError" := (Option.some.inj h).symm
    rw [ht]
    exact (Mon.of_noActs h0.noActs).setCrash _
  rw [if_neg hn] at h
  cases hl : loopN (fun s => !meekCountComplete s) (meekBody A o (A.divV A.one (A.ofInt (10 ^ o.omega10))) iterFuel)
      (2 * s0.cands.length + 3) (meekInit A s0) with
  | none => rw [hl] at h; cases h
  | some s7 =>
    rw [hl] at h
    have ht : t = meekEpilogue A o s7 := (Option.some.inj h).symm
    have hP := loopN_preserves (fun s => Mon s ∧ MInv A s) _ (meekBody A o (A.divV A.one (A.ofInt (10 ^ o.omega10))) iterFuel)
      (fun s hs => ⟨hs.1.meekBody A hA hz o _ iterFuel hs.2, hs.2.meekBody A hA hz o _ iterFuel⟩) _ _ _
      ⟨Mon.meekInit A h0, MInv.meekInit A hA h0⟩ hl
    rw [ht]
    exact hP.1.meekEpilogue A hA hz o hP.2

/-! ## the log of a Meek / Warren count is append-only -/

theorem breakTie_ballotsEq' (s : St α) (tied : List (Cand α)) (verb : String) : (breakTie A s tied verb).1.ballotsEq = s.ballotsEq := by
  unfold breakTie
  split
  · unfold St.setCrash; cases s.crash <;> rfl
  · rfl
  · unfold St.logAct; simp only; split <;> rfl


theorem ext_distribute (w : Bool) (s : St α) (hq : s.ballotsEq = []) : Ext s (distributeVotes A w s) :=
  Ext.of_acts_eq (distributeVotes_frame A w s hq).2.2.2.2

theorem ext_logMsg (s : St α) (verb : String) (subj : List Nat) (v : Option α) : Ext s (s.logMsg verb subj v) := by
  unfold Ext St.logMsg
  exact List.suffix_cons _ _

theorem ext_meekIterCore (o : MeekOpts) (s : St α) (hq : s.ballotsEq = []) : Ext s (Droop.meekIterCore A o s) := by
  unfold Droop.meekIterCore
  dsimp only
  refine Ext.trans ?_ (ext_setSurplus _ _)
  refine Ext.trans ?_ (ext_foldl (fun acc (c : Cand α) => acc.elect A c.cid "Elect" false) (fun s x => ext_elect A s _ _ _) _ _)
  exact (ext_distribute A o.warren s hq).trans (Ext.of_acts_eq rfl)

theorem ext_kfUpdate (cap : Bool) (s : St α) : Ext s (Droop.kfUpdate A cap s) := by
  rw [kfUpdate_eq]
  apply ext_foldl
  intro t c
  unfold Droop.kfStep
  split
  · split
    · exact ext_setCrash t _
    · exact Ext.of_acts_eq rfl
  · exact ext_setCrash t _

theorem ext_meekIterate (hA : LawfulArith A) (o : MeekOpts) (omega : α) :
    ∀ (fuel : Nat) (last : α) (s : St α), MInv A s → Ext s (Droop.meekIterate A o omega fuel last s).1 := by
  intro fuel
  induction fuel with
  | zero => intro last s _; exact Ext.refl s
  | succ n ih =>
    intro last s hI
    unfold Droop.meekIterate
    have hc := ext_meekIterCore A o s hI.noEq
    have hIc := hI.meekIterCore A hA o
    repeat' split
    all_goals first
      | exact hc
      | exact hc.trans (ext_logMsg _ _ _ _)
      | exact hc.trans (ext_kfUpdate A true _)
      | exact (hc.trans (ext_kfUpdate A true _)).trans (ih _ _ (hIc.kfUpdate A true))

theorem ext_meekDefeatOne (o : MeekOpts) (s : St α) (hq : s.ballotsEq = []) (cid : Nat) (verb : String) :
    Ext s (Droop.meekDefeatOne A o s cid verb) := by
  unfold Droop.meekDefeatOne
  have h1 : Ext s ((s.defeat A cid verb).upd cid (fun c => { c with kf := some A.zero, vote := A.zero })) :=
    (ext_defeat A s cid verb).trans (Ext.of_acts_eq rfl)
  refine h1.trans (ext_distribute A o.warren _ ?_)
  unfold St.defeat St.logAct; simp only; split <;> exact hq

theorem ext_meekDefeatBatch (hA : LawfulArith A) (hz : A.isZero A.zero = true) (o : MeekOpts) (u : St α) (hI : MInv A u)
    (cids : List Nat) : Ext u (Droop.meekDefeatBatch A o u cids) := by
  unfold Droop.meekDefeatBatch
  generalize byBallotOrder (u.cands.filter (fun c => cids.contains c.cid)) = l
  induction l generalizing u with
  | nil => exact Ext.refl u
  | cons c cs ih =>
    simp only [List.foldl_cons]
    exact (ext_meekDefeatOne A o u hI.noEq _ _).trans (ih _ (hI.meekDefeatOne A hA hz o c.cid _))

theorem ext_meekBody (hA : LawfulArith A) (hz : A.isZero A.zero = true) (o : MeekOpts) (omega : α) (fuel : Nat) (s : St α)
    (hI : MInv A s) : Ext s (Droop.meekBody A o omega fuel s).1 := by
  unfold Droop.meekBody
  have h1 := (ext_newRound A s).trans (ext_meekIterate A hA o omega fuel (A.ofInt (s.newRound A).nballots) _ (hI.newRound A))
  have hIr := MInv.meekIterate A hA o omega fuel (A.ofInt (s.newRound A).nballots) _ (hI.newRound A)
  generalize Droop.meekIterate A o omega fuel (A.ofInt (s.newRound A).nballots) (s.newRound A) = r at h1 hIr
  obtain ⟨t, st⟩ := r
  refine h1.trans ?_
  have hlow : ∀ b, Ext (t.logAct A "iterate" (if b then "Iterate (omega)" else "Iterate (stable)") [])
      (Droop.meekDefeatLow A o (t.logAct A "iterate" (if b then "Iterate (omega)" else "Iterate (stable)") []) b).1 := by
    intro b
    have hIl := hIr.logAct A "iterate" (if b then "Iterate (omega)" else "Iterate (stable)") []
    generalize t.logAct A "iterate" (if b then "Iterate (omega)" else "Iterate (stable)") [] = u at hIl
    unfold Droop.meekDefeatLow
    split
    · exact Ext.refl u
    · rename_i hd hs _
      have hfr := breakTie_ballotsEq' A u (u.hopeful.filter (fun c => A.ge (A.add (A.vMin hd.vote (hs.map (·.vote))) u.surplus) c.vote)) "Break tie (defeat)"
      have hbx := ext_breakTie A u (u.hopeful.filter (fun c => A.ge (A.add (A.vMin hd.vote (hs.map (·.vote))) u.surplus) c.vote)) "Break tie (defeat)"
      cases hb : Droop.breakTie A u (u.hopeful.filter (fun c => A.ge (A.add (A.vMin hd.vote (hs.map (·.vote))) u.surplus) c.vote)) "Break tie (defeat)" with
      | mk s3 oc =>
        rw [hb] at hfr hbx
        cases oc with
        | none => exact hbx
        | some lc => exact hbx.trans (ext_meekDefeatOne A o s3 (by simp only at hfr; rw [hfr]; exact hIl.noEq) _ _)
  unfold Droop.meekAfterIterate
  cases st with
  | fuel => exact ext_setCrash t _
  | crash => exact Ext.refl t
  | elected => exact ext_logAct A _ _ _ _
  | batch cids =>
    show Ext t (Droop.meekDefeatBatch A o (t.logAct A "iterate" "Iterate (batch)" []) cids)
    exact (ext_logAct A t "iterate" "Iterate (batch)" []).trans
      (ext_meekDefeatBatch A hA hz o _ (hIr.logAct A "iterate" "Iterate (batch)" []) cids)
  | omega => exact (ext_logAct A t "iterate" "Iterate (omega)" []).trans (hlow true)
  | stable => exact (ext_logAct A t "iterate" "Iterate (stable)" []).trans (hlow false)

theorem ext_meekInit {s0 : St α} (h0 : MInit A s0) : Ext s0 (Droop.meekInit A s0) := by
  unfold Droop.meekInit
  refine Ext.trans (Ext.of_acts_eq ?_) (ext_logAct A _ _ _ _)
  have e := meekFirstCount_eq A
    (((s0.setVotes (A.ofInt s0.nballots)).setQuota (meekQuota A (s0.setVotes (A.ofInt s0.nballots)))).initKf A.one) h0.noEq
  rw [e, foldl_mfcStep_acts]
  rfl

theorem ext_meekEpilogue (hA : LawfulArith A) (hz : A.isZero A.zero = true) (o : MeekOpts) (s : St α) (hI : MInv A s) :
    Ext s (Droop.meekEpilogue A o s) := by
  unfold Droop.meekEpilogue
  split
  · exact Ext.refl s
  · unfold meekFinal
    refine Ext.trans ?_ (Ext.of_acts_eq rfl)
    have key : ∀ (l : List (Cand α)) (t : St α), MInv A t → Ext t (l.foldl (Droop.meekRemainingStep A o) t) := by
      intro l
      induction l with
      | nil => intro t _; exact Ext.refl t
      | cons c cs ih =>
        intro t ht
        simp only [List.foldl_cons]
        refine Ext.trans ?_ (ih _ (ht.meekRemainingStep A hA hz o c))
        unfold Droop.meekRemainingStep
        split
        · exact (ext_elect A t _ _ _).trans (ext_distribute A o.warren _ (by unfold St.elect St.logAct; simp only; split <;> exact ht.noEq))
        · exact ext_meekDefeatOne A o t ht.noEq _ _
    exact key _ _ hI

/-- **C09 for meek and warren, run level**: the log of whatever the count returns extends the log it started with -/
theorem meek_record_appendOnly (hA : LawfulArith A) (hz : A.isZero A.zero = true) (o : MeekOpts) (iterFuel : Nat) (s0 t : St α)
    (h0 : MInit A s0) (h : meekCount A o iterFuel s0 = some t) : Ext s0 t := by
  unfold meekCount at h
  by_cases hn : (A.name == "integer") = true
  · rw [if_pos hn] at h
    have ht : t = s0.setCrash "AssertionError" := (Option.some.inj h).symm
    rw [ht]; exact ext_setCrash s0 _
  rw [if_neg hn] at h
  cases hl : loopN (fun s => !meekCountComplete s) (meekBody A o (A.divV A.one (A.ofInt (10 ^ o.omega10))) iterFuel)
      (2 * s0.cands.length + 3) (meekInit A s0) with
  | none => rw [hl] at h; cases h
  | some s7 =>
    rw [hl] at h
    have ht : t = meekEpilogue A o s7 := (Option.some.inj h).symm
    have hI7 := (meek_loop_identity A hA hz o _ iterFuel _ _ s7 (MInv.meekInit A hA h0) hl).1
    have hx := loopN_ext (MInv A) (fun s => !meekCountComplete s) (meekBody A o (A.divV A.one (A.ofInt (10 ^ o.omega10))) iterFuel)
      (fun s hs _ _ => hs.meekBody A hA hz o _ iterFuel) (fun s hs _ => ext_meekBody A hA hz o _ iterFuel s hs) _ _ _
      (MInv.meekInit A hA h0) hl
    rw [ht]
    exact (ext_meekInit A h0).trans (hx.trans (ext_meekEpilogue A hA hz o s7 hI7))

end Droop
