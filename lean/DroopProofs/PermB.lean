import DroopProofs.DropWCfer
import DroopProofs.OracleBridge
import Mathlib.Data.List.Perm.Basic

/-! # C10: reordering the ballot lines commutes with every step of a count (primitives)

`π` is a *natural* permutation of lists — it rearranges positions without looking at the entries (`NatPerm`: it commutes with
`List.map` and yields a permutation); `permB π s` is the state with the ballot lines, and the ballot views recorded with the
actions, rearranged by `π`.  The only steps that read the ballot list are the first count and `transferAll`, both folds whose
effect on the candidates is a sum of per-ballot contributions: rearranging the list does not change the resulting state. -/
namespace Droop
variable {α : Type} [CommRing α] [LinearOrder α] [IsStrictOrderedRing α] (A : Arith α)

structure NatPerm (π : ∀ {β : Type}, List β → List β) : Prop where
  nat : ∀ {β γ : Type} (f : β → γ) (l : List β), π (l.map f) = (π l).map f
  perm : ∀ {β : Type} (l : List β), (π l).Perm l

variable (fb : List (Ballot α) → List (Ballot α)) (fw : List (Nat × α) → List (Nat × α))

def xB (s : St α) : St α :=
  { s with ballots := fb s.ballots, acts := s.acts.map (fun a => { a with ws := fw a.ws }) }

/-! ## what one ballot does to the state during a fold -/

/-- the state after one step of the `transferAll` fold (the list component of the accumulator does not matter) -/
def tstate (cids : List Nat) (rew : α → α) (st : St α) (b : Ballot α) : St α := (tstep A cids rew (st, []) b).1

theorem tstep_fst (cids : List Nat) (rew : α → α) (acc : St α × List (Ballot α)) (b : Ballot α) :
    (tstep A cids rew acc b).1 = tstate A cids rew acc.1 b := by
  unfold tstate tstep
  cases b.top with
  | none => rfl
  | some c => simp only; split <;> rfl

theorem foldl_tstep_fst (cids : List Nat) (rew : α → α) (bs : List (Ballot α)) (acc : St α × List (Ballot α)) :
    (bs.foldl (tstep A cids rew) acc).1 = bs.foldl (tstate A cids rew) acc.1 := by
  induction bs generalizing acc with
  | nil => rfl
  | cons b bs ih => simp only [List.foldl_cons]; rw [ih, tstep_fst]

/-- an effect on the state: credit `v` to candidate `c`, or to the non-transferable total -/
def applyEff (st : St α) (e : Option (Option Nat × α)) : St α :=
  match e with
  | none => st
  | some (some c, v) => st.addVote A c v
  | some (none, v) => { st with exhausted := A.add st.exhausted v }

def effOf (h : Nat → Bool) (cids : List Nat) (rew : α → α) (b : Ballot α) : Option (Option Nat × α) :=
  match b.top with
  | none => none
  | some c =>
    if cids.contains c then
      some ((advanceTo h { b with w := rew b.w }).top, bvote A (advanceTo h { b with w := rew b.w }))
    else none

theorem tstate_eq (cids : List Nat) (rew : α → α) (st : St α) (b : Ballot α) :
    tstate A cids rew st b = applyEff A st (effOf A (fun cid => st.isHopeful cid) cids rew b) := by
  unfold tstate tstep effOf applyEff
  cases b.top with
  | none => rfl
  | some c =>
    simp only
    split
    · unfold transferBallot
      cases (advanceTo (fun cid => st.isHopeful cid) { b with w := rew b.w }).top <;> rfl
    · rfl

theorem isHopeful_applyEff (st : St α) (e : Option (Option Nat × α)) :
    (fun cid => (applyEff A st e).isHopeful cid) = (fun cid => st.isHopeful cid) := by
  funext cid
  unfold applyEff
  match e with
  | none => rfl
  | some (some c, v) => exact isHopeful_of_skel (addVote_skel A st c v) cid
  | some (none, v) => rfl

theorem addVote_comm (hA : LawfulArith A) (st : St α) (c c' : Nat) (v v' : α) :
    (st.addVote A c v).addVote A c' v' = (st.addVote A c' v').addVote A c v := by
  unfold St.addVote St.upd
  simp only [List.map_map]
  congr 1
  apply List.map_congr_left
  intro x _
  simp only [Function.comp]
  by_cases h1 : (x.cid == c) = true <;> by_cases h2 : (x.cid == c') = true <;>
    simp only [h1, h2, if_true, Bool.false_eq_true, if_false, hA.add_eq]
  · congr 1; ring

theorem applyEff_comm (hA : LawfulArith A) (st : St α) (e1 e2 : Option (Option Nat × α)) :
    applyEff A (applyEff A st e1) e2 = applyEff A (applyEff A st e2) e1 := by
  match e1, e2 with
  | none, _ => rfl
  | some _, none => rfl
  | some (some c, v), some (some c', v') => exact addVote_comm A hA st c c' v v'
  | some (some c, v), some (none, v') => rfl
  | some (none, v), some (some c', v') => rfl
  | some (none, v), some (none, v') =>
    unfold applyEff
    simp only [hA.add_eq]
    congr 1; ring

theorem tstate_comm (hA : LawfulArith A) (cids : List Nat) (rew : α → α) (st : St α) (b b' : Ballot α) :
    tstate A cids rew (tstate A cids rew st b) b' = tstate A cids rew (tstate A cids rew st b') b := by
  rw [tstate_eq A cids rew st b, tstate_eq A cids rew st b', tstate_eq, tstate_eq, isHopeful_applyEff, isHopeful_applyEff]
  exact applyEff_comm A hA st _ _

/-- the state component of the `transferAll` fold does not depend on the order of the ballot lines -/
theorem foldl_tstate_perm (hA : LawfulArith A) (cids : List Nat) (rew : α → α) {l l' : List (Ballot α)} (hp : l'.Perm l)
    (st : St α) : l'.foldl (tstate A cids rew) st = l.foldl (tstate A cids rew) st :=
  hp.foldl_eq' (fun x _ y _ z => tstate_comm A hA cids rew z x y) st

/-- what a transformation of the ballot list (`fb`) and of the logged ballot views (`fw`) must satisfy for the count to commute
    with it: it maps views to views, commutes with moving ballots, and leaves the summed effect of the two folds over the ballot
    list and the sum of the values of a top-determined selection unchanged -/
structure XF (fb : List (Ballot α) → List (Ballot α)) (fw : List (Nat × α) → List (Nat × α)) : Prop where
  view : ∀ l : List (Ballot α), fw (l.map (fun b => (b.idx, b.w))) = (fb l).map (fun b => (b.idx, b.w))
  move : ∀ (s : St α) (cids : List Nat) (rew : α → α) (l : List (Ballot α)),
    fb (l.map (moveBallot s cids rew)) = (fb l).map (moveBallot s cids rew)
  fold : ∀ (cids : List Nat) (rew : α → α) (st : St α) (l : List (Ballot α)),
    (fb l).foldl (tstate A cids rew) st = l.foldl (tstate A cids rew) st
  first : ∀ (st : St α) (l : List (Ballot α)), (fb l).foldl (fcStep A) st = l.foldl (fcStep A) st
  usum : ∀ (f : Ballot α → Bool), (∀ (b : Ballot α) (m : Nat), f { b with mult := m } = f b) → ∀ l : List (Ballot α),
    A.sum (((fb l).filter f).map (bvote A)) = A.sum ((l.filter f).map (bvote A))

/-! ## `xB` and the primitives -/

@[simp] theorem cands_xB (s : St α) : (xB fb fw s).cands = s.cands := rfl
@[simp] theorem hopeful_xB (s : St α) : (xB fb fw s).hopeful = s.hopeful := rfl
@[simp] theorem elected_xB (s : St α) : (xB fb fw s).elected = s.elected := rfl
@[simp] theorem pendingL_xB (s : St α) : (xB fb fw s).pendingL = s.pendingL := rfl
@[simp] theorem seatsLeft_xB (s : St α) : (xB fb fw s).seatsLeft = s.seatsLeft := rfl
@[simp] theorem quota_xB (s : St α) : (xB fb fw s).quota = s.quota := rfl
@[simp] theorem seats_xB (s : St α) : (xB fb fw s).seats = s.seats := rfl
@[simp] theorem crash_xB (s : St α) : (xB fb fw s).crash = s.crash := rfl
@[simp] theorem round_xB (s : St α) : (xB fb fw s).round = s.round := rfl
@[simp] theorem ballots_xB (s : St α) : (xB fb fw s).ballots = fb s.ballots := rfl
theorem isHopeful_fun_xB (s : St α) : (fun cid => (xB fb fw s).isHopeful cid) = (fun cid => s.isHopeful cid) := rfl

variable {fb fw}

theorem xB_logAct (hx : XF A fb fw) (s : St α) (tag verb : String) (subj : List Nat) :
    xB fb fw (s.logAct A tag verb subj) = (xB fb fw s).logAct A tag verb subj := by
  unfold St.logAct
  by_cases ht : (tag == "round") = true
  · simp only [ht, if_true]
    unfold xB
    simp only [List.map_cons, hx.view]
    rfl
  · have hf : (tag == "round") = false := by simpa using ht
    simp only [hf, Bool.false_eq_true, if_false]
    unfold xB
    simp only [List.map_cons, hx.view]
    rfl

theorem xB_upd (s : St α) (cid : Nat) (f : Cand α → Cand α) : xB fb fw (s.upd cid f) = (xB fb fw s).upd cid f := rfl

theorem xB_elect (hx : XF A fb fw) (s : St α) (cid : Nat) (verb : String) (p : Bool) :
    xB fb fw (s.elect A cid verb p) = (xB fb fw s).elect A cid verb p := by
  unfold St.elect; rw [xB_logAct A hx]; rfl

theorem xB_defeat (hx : XF A fb fw) (s : St α) (cid : Nat) (verb : String) :
    xB fb fw (s.defeat A cid verb) = (xB fb fw s).defeat A cid verb := by
  unfold St.defeat; rw [xB_logAct A hx]; rfl

theorem xB_unpendLog (hx : XF A fb fw) (s : St α) (cid : Nat) (verb : String) :
    xB fb fw (s.unpendLog A cid verb) = (xB fb fw s).unpendLog A cid verb := by
  unfold St.unpendLog; rw [xB_logAct A hx]; rfl

theorem xB_unpendSilent (s : St α) (cid : Nat) : xB fb fw (s.unpendSilent cid) = (xB fb fw s).unpendSilent cid := rfl
theorem xB_setVote (s : St α) (cid : Nat) (v : α) : xB fb fw (s.setVote cid v) = (xB fb fw s).setVote cid v := rfl

theorem xB_newRound (hx : XF A fb fw) (s : St α) : xB fb fw (s.newRound A) = (xB fb fw s).newRound A := by
  unfold St.newRound; rw [xB_logAct A hx]; rfl

theorem xB_setCrash (s : St α) (k : String) : xB fb fw (s.setCrash k) = (xB fb fw s).setCrash k := by
  unfold St.setCrash
  show xB fb fw (match s.crash with | some _ => s | none => { s with crash := some k }) = _
  cases hc : s.crash with
  | some _ => simp only [crash_xB, hc]
  | none => simp only [crash_xB, hc]; rfl

theorem xB_transferAll (hA : LawfulArith A) (hx : XF A fb fw) (s : St α) (cids : List Nat) (rew : α → α) :
    xB fb fw (transferAll A s cids rew) = transferAll A (xB fb fw s) cids rew := by
  -- both sides: the state after the fold, with the moved ballots
  have hL : transferAll A s cids rew = { s.ballots.foldl (tstate A cids rew) s with ballots := s.ballots.map (moveBallot s cids rew) } := by
    have hb := transferAll_ballots A s cids rew
    unfold transferAll at hb ⊢
    simp only at hb
    rw [hb, foldl_tstep_fst]
  have hR : transferAll A (xB fb fw s) cids rew
      = { (fb s.ballots).foldl (tstate A cids rew) (xB fb fw s) with ballots := (fb s.ballots).map (moveBallot (xB fb fw s) cids rew) } := by
    have hb := transferAll_ballots A (xB fb fw s) cids rew
    unfold transferAll at hb ⊢
    simp only [ballots_xB] at hb ⊢
    rw [hb, foldl_tstep_fst]
  rw [hL, hR, hx.fold cids rew _ s.ballots]
  -- folding from `xB fb fw s` instead of `s`: the fold does not touch the ballot list or the log
  have hfold : ∀ (l : List (Ballot α)) (t : St α), l.foldl (tstate A cids rew) (xB fb fw t) = xB fb fw (l.foldl (tstate A cids rew) t) := by
    intro l
    induction l with
    | nil => intro t; rfl
    | cons b bs ih =>
      intro t
      simp only [List.foldl_cons]
      rw [← ih]
      congr 1
      rw [tstate_eq, tstate_eq, isHopeful_fun_xB]
      unfold applyEff
      split <;> rfl
  rw [hfold]
  have hmv : moveBallot (xB fb fw s) cids rew = moveBallot s cids rew := rfl
  rw [hmv]
  unfold xB
  simp only [hx.move]

theorem xB_firstCount (hA : LawfulArith A) (hx : XF A fb fw) (s : St α) :
    xB fb fw (firstCount A s) = firstCount A (xB fb fw s) := by
  rw [firstCount_eq, firstCount_eq, ballots_xB, hx.first]
  generalize s.ballots = bs
  induction bs generalizing s with
  | nil => rfl
  | cons b bs ih =>
    simp only [List.foldl_cons]
    rw [ih]
    congr 1
    unfold fcStep
    cases b.top <;> rfl

theorem xB_breakTie (hx : XF A fb fw) (s : St α) (tied : List (Cand α)) (verb : String) :
    breakTie A (xB fb fw s) tied verb = (xB fb fw (breakTie A s tied verb).1, (breakTie A s tied verb).2) := by
  unfold breakTie
  match tied with
  | [] => simp only; rw [xB_setCrash]
  | [c] => rfl
  | c :: d :: r => simp only; rw [xB_logAct A hx]

theorem xB_transferSurplus (hA : LawfulArith A) (hx : XF A fb fw) (s : St α) (hc : Cand α) (rew : α → α → α → α) (verb : String) :
    xB fb fw (transferSurplus A s hc rew verb) = transferSurplus A (xB fb fw s) hc rew verb := by
  unfold transferSurplus
  dsimp only
  rw [xB_logAct A hx, xB_setVote, xB_transferAll A hA hx]
  have hq : (transferAll A s [hc.cid] fun w => rew w (A.sub hc.vote s.quota) hc.vote).quota
      = (transferAll A (xB fb fw s) [hc.cid] fun w => rew w (A.sub hc.vote (xB fb fw s).quota) hc.vote).quota := by
    rw [transferAll_quota, transferAll_quota]; rfl
  rw [hq]
  rfl

theorem xB_foldSetZero (cids : List Nat) (s : St α) :
    xB fb fw (cids.foldl (fun acc c => acc.setVote c A.zero) s) = cids.foldl (fun acc c => acc.setVote c A.zero) (xB fb fw s) := by
  induction cids generalizing s with
  | nil => rfl
  | cons c cs ih => simp only [List.foldl_cons]; rw [ih, xB_setVote]

theorem xB_transferDefeated (hA : LawfulArith A) (hx : XF A fb fw) (s : St α) (cids : List Nat) (verb : String) :
    xB fb fw (transferDefeated A s cids verb) = transferDefeated A (xB fb fw s) cids verb := by
  unfold transferDefeated
  dsimp only
  rw [xB_logAct A hx, xB_foldSetZero, xB_transferAll A hA hx]

theorem xB_foldElect (hx : XF A fb fw) (ws : List (Cand α)) (verb : Cand α → String) (pend : Cand α → Bool) (s : St α) :
    xB fb fw (ws.foldl (fun acc c => acc.elect A c.cid (verb c) (pend c)) s)
      = ws.foldl (fun acc c => acc.elect A c.cid (verb c) (pend c)) (xB fb fw s) := by
  induction ws generalizing s with
  | nil => rfl
  | cons w ws ih => simp only [List.foldl_cons]; rw [ih, xB_elect A hx]

theorem xB_foldDefeat (hx : XF A fb fw) (ws : List (Cand α)) (verb : Cand α → String) (s : St α) :
    xB fb fw (ws.foldl (fun acc c => acc.defeat A c.cid (verb c)) s)
      = ws.foldl (fun acc c => acc.defeat A c.cid (verb c)) (xB fb fw s) := by
  induction ws generalizing s with
  | nil => rfl
  | cons w ws ih => simp only [List.foldl_cons]; rw [ih, xB_defeat A hx]

theorem xB_foldUnpend (l : List (Cand α)) (s : St α) :
    xB fb fw (l.foldl (fun acc c => acc.unpendSilent c.cid) s) = l.foldl (fun acc c => acc.unpendSilent c.cid) (xB fb fw s) := by
  induction l generalizing s with
  | nil => rfl
  | cons c cs ih => simp only [List.foldl_cons]; rw [ih, xB_unpendSilent]

/-! ## natural permutations are such transformations -/

/-- the state with its ballot lines, and the logged ballot views, rearranged by the natural permutation `π` -/
abbrev permB (π : ∀ {β : Type}, List β → List β) (s : St α) : St α := xB π π s

theorem XF_of_natPerm (hA : LawfulArith A) {π : ∀ {β : Type}, List β → List β} (hπ : NatPerm π) : XF A π π := by
  refine ⟨fun l => hπ.nat _ l, fun s cids rew l => hπ.nat _ l,
    fun cids rew st l => foldl_tstate_perm A hA cids rew (hπ.perm l) st, ?_, ?_⟩
  · intro st l
    apply (hπ.perm l).foldl_eq'
    intro x _ y _ z
    unfold fcStep
    cases x.top <;> cases y.top <;> simp only
    exact addVote_comm A hA z _ _ _ _
  · intro f _ l
    rw [arith_sum_eq A hA, arith_sum_eq A hA]
    exact (((hπ.perm l).filter _).map _).sum_eq

end Droop
