import DroopProofs.DropWCfer
import Mathlib.Data.List.Perm.Basic

/-! # C10: reordering the ballot lines commutes with every step of a count (primitives)

`π` is a *natural* permutation of lists — it rearranges positions without looking at the entries (`NatPerm`: it commutes with
`List.map` and yields a permutation); `permB π s` is the state with the ballot lines, and the ballot views recorded with the
actions, rearranged by `π`.  The only steps that read the ballot list are the first count and `transferAll`, both folds whose
effect on the candidates is a sum of per-ballot contributions: rearranging the list does not change the resulting state. -/
namespace Droop
variable {α : Type} [CommRing α] [LinearOrder α] [IsStrictOrderedRing α] (A : Arith α)

structure NatPerm (π : ∀ {β : Type}, List β → List β) : Prop where
  nat : ∀ {β γ : Type} (f : β → γ) (l : List β), π (l.map f) = (π l).map f
  perm : ∀ {β : Type} (l : List β), (π l).Perm l

variable (π : ∀ {β : Type}, List β → List β)

def permB (s : St α) : St α :=
  { s with ballots := π s.ballots, acts := s.acts.map (fun a => { a with ws := π a.ws }) }

/-! ## what one ballot does to the state during a fold -/

/-- the state after one step of the `transferAll` fold (the list component of the accumulator does not matter) -/
def tstate (cids : List Nat) (rew : α → α) (st : St α) (b : Ballot α) : St α := (tstep A cids rew (st, []) b).1

theorem tstep_fst (cids : List Nat) (rew : α → α) (acc : St α × List (Ballot α)) (b : Ballot α) :
    (tstep A cids rew acc b).1 = tstate A cids rew acc.1 b := by
  unfold tstate tstep
  cases b.top with
  | none => rfl
  | some c => simp only; split <;> rfl

theorem foldl_tstep_fst (cids : List Nat) (rew : α → α) (bs : List (Ballot α)) (acc : St α × List (Ballot α)) :
    (bs.foldl (tstep A cids rew) acc).1 = bs.foldl (tstate A cids rew) acc.1 := by
  induction bs generalizing acc with
  | nil => rfl
  | cons b bs ih => simp only [List.foldl_cons]; rw [ih, tstep_fst]

/-- an effect on the state: credit `v` to candidate `c`, or to the non-transferable total -/
def applyEff (st : St α) (e : Option (Option Nat × α)) : St α :=
  match e with
  | none => st
  | some (some c, v) => st.addVote A c v
  | some (none, v) => { st with exhausted := A.add st.exhausted v }

def effOf (h : Nat → Bool) (cids : List Nat) (rew : α → α) (b : Ballot α) : Option (Option Nat × α) :=
  match b.top with
  | none => none
  | some c =>
    if cids.contains c then
      some ((advanceTo h { b with w := rew b.w }).top, bvote A (advanceTo h { b with w := rew b.w }))
    else none

theorem tstate_eq (cids : List Nat) (rew : α → α) (st : St α) (b : Ballot α) :
    tstate A cids rew st b = applyEff A st (effOf A (fun cid => st.isHopeful cid) cids rew b) := by
  unfold tstate tstep effOf applyEff
  cases b.top with
  | none => rfl
  | some c =>
    simp only
    split
    · unfold transferBallot
      cases (advanceTo (fun cid => st.isHopeful cid) { b with w := rew b.w }).top <;> rfl
    · rfl

theorem isHopeful_applyEff (st : St α) (e : Option (Option Nat × α)) :
    (fun cid => (applyEff A st e).isHopeful cid) = (fun cid => st.isHopeful cid) := by
  funext cid
  unfold applyEff
  match e with
  | none => rfl
  | some (some c, v) => exact isHopeful_of_skel (addVote_skel A st c v) cid
  | some (none, v) => rfl

theorem addVote_comm (hA : LawfulArith A) (st : St α) (c c' : Nat) (v v' : α) :
    (st.addVote A c v).addVote A c' v' = (st.addVote A c' v').addVote A c v := by
  unfold St.addVote St.upd
  simp only [List.map_map]
  congr 1
  apply List.map_congr_left
  intro x _
  simp only [Function.comp]
  by_cases h1 : (x.cid == c) = true <;> by_cases h2 : (x.cid == c') = true <;>
    simp only [h1, h2, if_true, Bool.false_eq_true, if_false, hA.add_eq]
  · congr 1; ring

theorem applyEff_comm (hA : LawfulArith A) (st : St α) (e1 e2 : Option (Option Nat × α)) :
    applyEff A (applyEff A st e1) e2 = applyEff A (applyEff A st e2) e1 := by
  match e1, e2 with
  | none, _ => rfl
  | some _, none => rfl
  | some (some c, v), some (some c', v') => exact addVote_comm A hA st c c' v v'
  | some (some c, v), some (none, v') => rfl
  | some (none, v), some (some c', v') => rfl
  | some (none, v), some (none, v') =>
    unfold applyEff
    simp only [hA.add_eq]
    congr 1; ring

theorem tstate_comm (hA : LawfulArith A) (cids : List Nat) (rew : α → α) (st : St α) (b b' : Ballot α) :
    tstate A cids rew (tstate A cids rew st b) b' = tstate A cids rew (tstate A cids rew st b') b := by
  rw [tstate_eq A cids rew st b, tstate_eq A cids rew st b', tstate_eq, tstate_eq, isHopeful_applyEff, isHopeful_applyEff]
  exact applyEff_comm A hA st _ _

/-- the state component of the `transferAll` fold does not depend on the order of the ballot lines -/
theorem foldl_tstate_perm (hA : LawfulArith A) (cids : List Nat) (rew : α → α) {l l' : List (Ballot α)} (hp : l'.Perm l)
    (st : St α) : l'.foldl (tstate A cids rew) st = l.foldl (tstate A cids rew) st :=
  hp.foldl_eq' (fun x _ y _ z => tstate_comm A hA cids rew z x y) st

/-! ## `permB` and the primitives -/

@[simp] theorem cands_permB (s : St α) : (permB π s).cands = s.cands := rfl
@[simp] theorem hopeful_permB (s : St α) : (permB π s).hopeful = s.hopeful := rfl
@[simp] theorem elected_permB (s : St α) : (permB π s).elected = s.elected := rfl
@[simp] theorem pendingL_permB (s : St α) : (permB π s).pendingL = s.pendingL := rfl
@[simp] theorem seatsLeft_permB (s : St α) : (permB π s).seatsLeft = s.seatsLeft := rfl
@[simp] theorem quota_permB (s : St α) : (permB π s).quota = s.quota := rfl
@[simp] theorem seats_permB (s : St α) : (permB π s).seats = s.seats := rfl
@[simp] theorem crash_permB (s : St α) : (permB π s).crash = s.crash := rfl
@[simp] theorem round_permB (s : St α) : (permB π s).round = s.round := rfl
@[simp] theorem ballots_permB (s : St α) : (permB π s).ballots = π s.ballots := rfl
theorem isHopeful_fun_permB (s : St α) : (fun cid => (permB π s).isHopeful cid) = (fun cid => s.isHopeful cid) := rfl

variable {π}

theorem permB_logAct (hπ : NatPerm π) (s : St α) (tag verb : String) (subj : List Nat) :
    permB π (s.logAct A tag verb subj) = (permB π s).logAct A tag verb subj := by
  unfold St.logAct
  by_cases ht : (tag == "round") = true
  · simp only [ht, if_true]
    unfold permB
    simp only [List.map_cons, hπ.nat]
    rfl
  · have hf : (tag == "round") = false := by simpa using ht
    simp only [hf, Bool.false_eq_true, if_false]
    unfold permB
    simp only [List.map_cons, hπ.nat]
    rfl

theorem permB_upd (s : St α) (cid : Nat) (f : Cand α → Cand α) : permB π (s.upd cid f) = (permB π s).upd cid f := rfl

theorem permB_elect (hπ : NatPerm π) (s : St α) (cid : Nat) (verb : String) (p : Bool) :
    permB π (s.elect A cid verb p) = (permB π s).elect A cid verb p := by
  unfold St.elect; rw [permB_logAct A hπ]; rfl

theorem permB_defeat (hπ : NatPerm π) (s : St α) (cid : Nat) (verb : String) :
    permB π (s.defeat A cid verb) = (permB π s).defeat A cid verb := by
  unfold St.defeat; rw [permB_logAct A hπ]; rfl

theorem permB_unpendLog (hπ : NatPerm π) (s : St α) (cid : Nat) (verb : String) :
    permB π (s.unpendLog A cid verb) = (permB π s).unpendLog A cid verb := by
  unfold St.unpendLog; rw [permB_logAct A hπ]; rfl

theorem permB_unpendSilent (s : St α) (cid : Nat) : permB π (s.unpendSilent cid) = (permB π s).unpendSilent cid := rfl
theorem permB_setVote (s : St α) (cid : Nat) (v : α) : permB π (s.setVote cid v) = (permB π s).setVote cid v := rfl

theorem permB_newRound (hπ : NatPerm π) (s : St α) : permB π (s.newRound A) = (permB π s).newRound A := by
  unfold St.newRound; rw [permB_logAct A hπ]; rfl

theorem permB_setCrash (s : St α) (k : String) : permB π (s.setCrash k) = (permB π s).setCrash k := by
  unfold St.setCrash
  show permB π (match s.crash with | some _ => s | none => { s with crash := some k }) = _
  cases hc : s.crash with
  | some _ => simp only [crash_permB, hc]
  | none => simp only [crash_permB, hc]; rfl

theorem permB_transferAll (hA : LawfulArith A) (hπ : NatPerm π) (s : St α) (cids : List Nat) (rew : α → α) :
    permB π (transferAll A s cids rew) = transferAll A (permB π s) cids rew := by
  -- both sides: the state after the fold, with the moved ballots
  have hL : transferAll A s cids rew = { s.ballots.foldl (tstate A cids rew) s with ballots := s.ballots.map (moveBallot s cids rew) } := by
    have hb := transferAll_ballots A s cids rew
    unfold transferAll at hb ⊢
    simp only at hb
    rw [hb, foldl_tstep_fst]
  have hR : transferAll A (permB π s) cids rew
      = { (π s.ballots).foldl (tstate A cids rew) (permB π s) with ballots := (π s.ballots).map (moveBallot (permB π s) cids rew) } := by
    have hb := transferAll_ballots A (permB π s) cids rew
    unfold transferAll at hb ⊢
    simp only [ballots_permB] at hb ⊢
    rw [hb, foldl_tstep_fst]
  rw [hL, hR, foldl_tstate_perm A hA cids rew (hπ.perm s.ballots)]
  -- folding from `permB π s` instead of `s`: the fold does not touch the ballot list or the log
  have hfold : ∀ (l : List (Ballot α)) (t : St α), l.foldl (tstate A cids rew) (permB π t) = permB π (l.foldl (tstate A cids rew) t) := by
    intro l
    induction l with
    | nil => intro t; rfl
    | cons b bs ih =>
      intro t
      simp only [List.foldl_cons]
      rw [← ih]
      congr 1
      rw [tstate_eq, tstate_eq, isHopeful_fun_permB]
      unfold applyEff
      split <;> rfl
  rw [hfold]
  have hmv : moveBallot (permB π s) cids rew = moveBallot s cids rew := rfl
  rw [hmv]
  unfold permB
  simp only [hπ.nat]

theorem permB_firstCount (hA : LawfulArith A) (hπ : NatPerm π) (s : St α) :
    permB π (firstCount A s) = firstCount A (permB π s) := by
  unfold firstCount
  simp only [ballots_permB]
  have hcomm : ∀ (x y : Ballot α) (z : St α),
      (fun (s : St α) (b : Ballot α) => match b.top with | some c => s.addVote A c (bvote A b) | none => s)
        ((fun (s : St α) (b : Ballot α) => match b.top with | some c => s.addVote A c (bvote A b) | none => s) z x) y
      = (fun (s : St α) (b : Ballot α) => match b.top with | some c => s.addVote A c (bvote A b) | none => s)
        ((fun (s : St α) (b : Ballot α) => match b.top with | some c => s.addVote A c (bvote A b) | none => s) z y) x := by
    intro x y z
    simp only
    cases x.top <;> cases y.top <;> simp only
    exact addVote_comm A hA z _ _ _ _
  rw [(hπ.perm s.ballots).foldl_eq' (fun x _ y _ z => hcomm x y z) (permB π s)]
  generalize s.ballots = bs
  induction bs generalizing s with
  | nil => rfl
  | cons b bs ih =>
    simp only [List.foldl_cons]
    rw [ih]
    congr 1
    cases b.top <;> rfl

theorem permB_breakTie (hπ : NatPerm π) (s : St α) (tied : List (Cand α)) (verb : String) :
    breakTie A (permB π s) tied verb = (permB π (breakTie A s tied verb).1, (breakTie A s tied verb).2) := by
  unfold breakTie
  match tied with
  | [] => simp only; rw [permB_setCrash]
  | [c] => rfl
  | c :: d :: r => simp only; rw [permB_logAct A hπ]

theorem permB_transferSurplus (hA : LawfulArith A) (hπ : NatPerm π) (s : St α) (hc : Cand α) (rew : α → α → α → α) (verb : String) :
    permB π (transferSurplus A s hc rew verb) = transferSurplus A (permB π s) hc rew verb := by
  unfold transferSurplus
  dsimp only
  rw [permB_logAct A hπ, permB_setVote, permB_transferAll A hA hπ]
  have hq : (transferAll A s [hc.cid] fun w => rew w (A.sub hc.vote s.quota) hc.vote).quota
      = (transferAll A (permB π s) [hc.cid] fun w => rew w (A.sub hc.vote (permB π s).quota) hc.vote).quota := by
    rw [transferAll_quota, transferAll_quota]; rfl
  rw [hq]
  rfl

theorem permB_foldSetZero (cids : List Nat) (s : St α) :
    permB π (cids.foldl (fun acc c => acc.setVote c A.zero) s) = cids.foldl (fun acc c => acc.setVote c A.zero) (permB π s) := by
  induction cids generalizing s with
  | nil => rfl
  | cons c cs ih => simp only [List.foldl_cons]; rw [ih, permB_setVote]

theorem permB_transferDefeated (hA : LawfulArith A) (hπ : NatPerm π) (s : St α) (cids : List Nat) (verb : String) :
    permB π (transferDefeated A s cids verb) = transferDefeated A (permB π s) cids verb := by
  unfold transferDefeated
  dsimp only
  rw [permB_logAct A hπ, permB_foldSetZero, permB_transferAll A hA hπ]

theorem permB_foldElect (hπ : NatPerm π) (ws : List (Cand α)) (verb : Cand α → String) (pend : Cand α → Bool) (s : St α) :
    permB π (ws.foldl (fun acc c => acc.elect A c.cid (verb c) (pend c)) s)
      = ws.foldl (fun acc c => acc.elect A c.cid (verb c) (pend c)) (permB π s) := by
  induction ws generalizing s with
  | nil => rfl
  | cons w ws ih => simp only [List.foldl_cons]; rw [ih, permB_elect A hπ]

theorem permB_foldDefeat (hπ : NatPerm π) (ws : List (Cand α)) (verb : Cand α → String) (s : St α) :
    permB π (ws.foldl (fun acc c => acc.defeat A c.cid (verb c)) s)
      = ws.foldl (fun acc c => acc.defeat A c.cid (verb c)) (permB π s) := by
  induction ws generalizing s with
  | nil => rfl
  | cons w ws ih => simp only [List.foldl_cons]; rw [ih, permB_defeat A hπ]

theorem permB_foldUnpend (l : List (Cand α)) (s : St α) :
    permB π (l.foldl (fun acc c => acc.unpendSilent c.cid) s) = l.foldl (fun acc c => acc.unpendSilent c.cid) (permB π s) := by
  induction l generalizing s with
  | nil => rfl
  | cons c cs ih => simp only [List.foldl_cons]; rw [ih, permB_unpendSilent]

end Droop
