import DroopProofs.DropWCfer
import DroopProofs.LowerRun
import DroopProofs.RunMpls
import DroopProofs.OracleBridge

/-! # C11, Minneapolis: the count of the profile with the withdrawn candidates deleted is the count of the full profile with
the withdrawn candidates deleted from its record

Minneapolis reports a surplus summed over *all* candidates (`mplsSurplusAll`), withdrawn ones included.  A withdrawn candidate
holds no votes and the quota is positive, so its term is zero — under an arithmetic whose `<` is the exact order (the rule's forced
fixed-point arithmetic is).  The facts needed (`withdrawn tallies are zero`, `one ≤ quota`) are part of `LInv`, which the lower-half
proof of C02 already carries through every step of `mplsBody`; the states between a transfer and its log line get them from
`transferAll_wz` / `setVote_wz`.  Profiles without undeclared write-ins (`NoUnd`), as for the other Minneapolis theorems. -/
namespace Droop
variable {α : Type} [CommRing α] [LinearOrder α] [IsStrictOrderedRing α] (A : Arith α)
variable (hA : LawfulArith A) (hlt : ∀ a b : α, A.lt a b = true ↔ a < b)

def WZ (s : St α) : Prop := ∀ c ∈ s.cands, c.st = .withdrawn → c.vote = 0

include hA hlt in
theorem candSurplus_withdrawn {s : St α} (hq : 0 < s.quota) {c : Cand α} (hv : c.vote = 0) : candSurplus A s c = 0 := by
  unfold candSurplus
  have : A.lt (A.sub c.vote s.quota) A.zero = true := by
    rw [hlt, hA.sub_eq, hA.zero_eq, hv]; linarith
  rw [if_pos this, hA.zero_eq]

theorem sum_map_filter_nonW (l : List (Cand α)) (p : Cand α → Bool) (f : Cand α → α)
    (h0 : ∀ c ∈ l, nonW c = false → f c = 0) :
    (((l.filter nonW).filter p).map f).sum = ((l.filter p).map f).sum := by
  induction l with
  | nil => rfl
  | cons x xs ih =>
    have ih' := ih (fun c hc => h0 c (List.mem_cons_of_mem _ hc))
    by_cases hx : nonW x = true
    · rw [List.filter_cons_of_pos hx]
      by_cases hp : p x = true
      · rw [List.filter_cons_of_pos hp, List.filter_cons_of_pos hp, List.map_cons, List.map_cons, List.sum_cons, List.sum_cons, ih']
      · rw [List.filter_cons_of_neg hp, List.filter_cons_of_neg hp, ih']
    · have hx' : nonW x = false := by simpa using hx
      rw [List.filter_cons_of_neg hx]
      by_cases hp : p x = true
      · rw [List.filter_cons_of_pos hp, List.map_cons, List.sum_cons, ih', h0 x (List.mem_cons_self) hx', zero_add]
      · rw [List.filter_cons_of_neg hp, ih']

theorem withdrawn_of_nonW_false {c : Cand α} (h : nonW c = false) : c.st = .withdrawn := by
  unfold nonW at h
  simpa using h

include hA hlt in
theorem mplsSurplusAll_dropW {s : St α} (hwz : WZ s) (hq : 0 < s.quota) (d : Bool) :
    mplsSurplusAll A (dropW s) d = mplsSurplusAll A s d := by
  unfold mplsSurplusAll
  rw [arith_sum_eq A hA, arith_sum_eq A hA]
  show ((((s.cands.filter nonW).filter _).map (candSurplus A s)).sum) = _
  apply sum_map_filter_nonW
  intro c hc hn
  exact candSurplus_withdrawn A hA hlt hq (hwz c hc (withdrawn_of_nonW_false hn))

include hA hlt in
theorem dropW_mplsLogTransfer {s : St α} (hwz : WZ s) (hq : 0 < s.quota) (verb : String) (subj : List Nat) :
    dropW (mplsLogTransfer A s verb subj) = mplsLogTransfer A (dropW s) verb subj := by
  unfold mplsLogTransfer
  rw [dropW_logAct, dropW_setSurplus, mplsSurplusAll_dropW A hA hlt hwz hq]

include hA hlt in
theorem dropW_mplsCountVotes {s : St α} (hwz : WZ s) (hq : 0 < s.quota) :
    dropW (mplsCountVotes A s) = mplsCountVotes A (dropW s) := by
  unfold mplsCountVotes
  rw [dropW_logAct, dropW_setSurplus, mplsSurplusAll_dropW A hA hlt hwz hq]

theorem mplsCertainLosers_dropW (s : St α) (surplus : α) :
    mplsCertainLosers A (dropW s) surplus = mplsCertainLosers A s surplus := by
  unfold mplsCertainLosers
  simp only [hopeful_dropW, seatsLeft_dropW]

theorem mplsAtThreshold_dropW (s : St α) : mplsAtThreshold A (dropW s) = mplsAtThreshold A s := by
  unfold mplsAtThreshold
  simp only [hopeful_dropW]
  rfl

theorem mplsAtThreshold_hopeful (s : St α) : ∀ w ∈ mplsAtThreshold A s, w ∈ s.hopeful := by
  intro w hw
  unfold mplsAtThreshold at hw
  exact (mem_pySorted _ _ _ _).1 (List.mem_filter.1 hw).1

theorem dropW_mplsElectThreshold {s : St α} (hwf : s.WF) :
    mplsElectThreshold A (dropW s) = (dropW (mplsElectThreshold A s).1, (mplsElectThreshold A s).2) := by
  unfold mplsElectThreshold
  rw [mplsAtThreshold_dropW]
  simp only
  rw [dropW_foldElect A _ (fun _ => "Candidate at threshold") (fun _ => false) hwf
    (fun w hw => nonWId_of_hopeful (mplsAtThreshold_hopeful A s w hw))]

theorem isUndeclared_false {s : St α} (hnu : NoUnd s) (c : Nat) : s.isUndeclared c = false := by
  unfold St.isUndeclared
  rw [Bool.eq_false_iff]
  intro h
  rw [List.any_eq_true] at h
  obtain ⟨x, hx, hxx⟩ := h
  rw [hnu x hx] at hxx
  simp at hxx

theorem noUnd_dropW {s : St α} (hnu : NoUnd s) : NoUnd (dropW s) := by
  intro c hc
  exact hnu c (List.mem_filter.1 hc).1

theorem mplsDefeatSet_dropW {s : St α} (hnu : NoUnd s) : mplsDefeatSet A (dropW s) = mplsDefeatSet A s := by
  unfold mplsDefeatSet
  have hs : (dropW s).surplus = s.surplus := rfl
  simp only [round_dropW, hopeful_dropW, ballots_dropW, hs, mplsCertainLosers_dropW, isUndeclared_false hnu,
    isUndeclared_false (noUnd_dropW hnu)]

/-! ## the cores of the two transfers -/

theorem dropW_surplusCore (s : St α) (hc : Cand α) (rew : α → α → α → α) :
    dropW (surplusCore A s hc rew) = surplusCore A (dropW s) hc rew := by
  unfold surplusCore
  rw [dropW_setVote, dropW_transferAll]
  have hq : (transferAll A s [hc.cid] fun w => rew w (A.sub hc.vote s.quota) hc.vote).quota
      = (transferAll A (dropW s) [hc.cid] fun w => rew w (A.sub hc.vote (dropW s).quota) hc.vote).quota := by
    rw [transferAll_quota, transferAll_quota]; rfl
  rw [hq]
  rfl

theorem dropW_defeatedCore (s : St α) (cids : List Nat) :
    dropW (defeatedCore A s cids) = defeatedCore A (dropW s) cids := by
  unfold defeatedCore
  rw [dropW_foldSetZero, dropW_transferAll]

include hA in
theorem wz_defeatedCore {s : St α} (hI : Inv A s) (hwz : WZ s) (cids : List Nat) : WZ (defeatedCore A s cids) := by
  unfold defeatedCore
  exact foldSetZero_wz A hA cids (transferAll_wz A hA hI cids id hwz)

theorem quota_defeatedCore (s : St α) (cids : List Nat) : (defeatedCore A s cids).quota = s.quota := by
  unfold defeatedCore
  rw [(foldSetZero_frame A cids _).2.2.1, transferAll_quota]

include hA in
theorem wz_surplusCore {s : St α} (hI : Inv A s) (hwz : WZ s) (hc : Cand α) (hn : NonWId s hc.cid) (rew : α → α → α → α) :
    WZ (surplusCore A s hc rew) := by
  unfold surplusCore
  apply setVote_wz
  · exact transferAll_wz A hA hI _ _ hwz
  · right
    have hsk := transferAll_skel A s [hc.cid] (fun w => rew w (A.sub hc.vote s.quota) hc.vote)
    have hwf' : (transferAll A s [hc.cid] (fun w => rew w (A.sub hc.vote s.quota) hc.vote)).WF := WF_of_skel hsk.symm hI.wf
    exact noW_of_nonWId hwf' (nonWId_of_skel hn hsk)

theorem quota_surplusCore (s : St α) (hc : Cand α) (rew : α → α → α → α) : (surplusCore A s hc rew).quota = s.quota := by
  unfold surplusCore
  show (transferAll A s [hc.cid] _).quota = _
  rw [transferAll_quota]

/-! ## the steps of a Minneapolis round -/

include hA hlt in
theorem dropW_mplsDefeatMany (u : α) {s : St α} (hI : Inv A s) (hL : LInv A u s) (l : List (Cand α))
    (hsub : ∀ w ∈ l, w ∈ s.hopeful) :
    mplsDefeatMany A (dropW s) l = (dropW (mplsDefeatMany A s l).1, (mplsDefeatMany A s l).2) := by
  have hI1 := hI.foldDefeatV A l mplsDefeatVerb
  have hL1 := LInv.foldDefeatV A u hL hI.meth l mplsDefeatVerb
  have hq1 : 0 < (l.foldl (fun acc c => acc.defeat A c.cid (mplsDefeatVerb c)) s).quota := lt_of_lt_of_le hA.one_pos hL1.q1
  show (mplsLogTransfer A (defeatedCore A (l.foldl (fun acc c => acc.defeat A c.cid (mplsDefeatVerb c)) (dropW s)) (l.map (·.cid)))
      "Transfer defeated" (l.map (·.cid)), Flow.cont)
    = (dropW (mplsLogTransfer A (defeatedCore A (l.foldl (fun acc c => acc.defeat A c.cid (mplsDefeatVerb c)) s) (l.map (·.cid)))
      "Transfer defeated" (l.map (·.cid))), Flow.cont)
  rw [dropW_mplsLogTransfer A hA hlt (wz_defeatedCore A hA hI1 hL1.wz _) (by rw [quota_defeatedCore]; exact hq1),
    dropW_defeatedCore, dropW_foldDefeat A _ _ hI.wf (fun w hw => nonWId_of_hopeful (hsub w hw))]

include hA hlt in
theorem dropW_mplsElectSurplus (u : α) {s : St α} (hI : Inv A s) (hL : LInv A u s) (hwq : List (Cand α)) (hv : α)
    (hsub : ∀ w ∈ hwq, w ∈ s.hopeful) :
    mplsElectSurplus A (dropW s) hwq hv = (dropW (mplsElectSurplus A s hwq hv).1, (mplsElectSurplus A s hwq hv).2) := by
  unfold mplsElectSurplus
  rw [dropW_breakTie]
  have hI1 := hI.breakTie A (hwq.filter (fun c => A.eq c.vote hv)) "Break tie (largest surplus)"
  have hL1 := hL.breakTie A u hI.meth (hwq.filter (fun c => A.eq c.vote hv)) "Break tie (largest surplus)"
  have hfr := (breakTie_frame A s (hwq.filter (fun c => A.eq c.vote hv)) "Break tie (largest surplus)").1
  have hmem := breakTie_mem A s (hwq.filter (fun c => A.eq c.vote hv)) "Break tie (largest surplus)"
  cases hb : breakTie A s (hwq.filter (fun c => A.eq c.vote hv)) "Break tie (largest surplus)" with
  | mk s3 oc =>
    rw [hb] at hI1 hL1 hfr hmem
    cases oc with
    | none => rfl
    | some hc =>
      simp only
      have hch : hc ∈ s.hopeful := hsub hc (List.mem_filter.1 (hmem hc rfl)).1
      have hn3 : NonWId s3 hc.cid := nonWId_of_cands (nonWId_of_hopeful hch) hfr
      have hI4 := hI1.electNP A hc.cid "Elect"
      have hL4 := hL1.elect A u hI1.meth hc.cid "Elect" false
      have hn4 : NonWId (s3.elect A hc.cid "Elect" false) hc.cid := nonWId_elect A hn3 _ _ _
      have hq4 : 0 < (s3.elect A hc.cid "Elect" false).quota := lt_of_lt_of_le hA.one_pos hL4.q1
      show (mplsLogTransfer A (surplusCore A ((dropW s3).elect A hc.cid "Elect" false) hc (rewMulDiv A)) "Transfer surplus" [hc.cid],
          Flow.cont)
        = (dropW (mplsLogTransfer A (surplusCore A (s3.elect A hc.cid "Elect" false) hc (rewMulDiv A)) "Transfer surplus" [hc.cid]),
          Flow.cont)
      rw [dropW_mplsLogTransfer A hA hlt (wz_surplusCore A hA hI4 hL4.wz hc hn4 _) (by rw [quota_surplusCore]; exact hq4),
        dropW_surplusCore, dropW_elect A hI1.wf hn3]

include hA hlt in
theorem dropW_mplsDefeatLow (u : α) {s : St α} (hI : Inv A s) (hL : LInv A u s) :
    dropW (mplsDefeatLow A s) = mplsDefeatLow A (dropW s) := by
  unfold mplsDefeatLow
  simp only [hopeful_dropW, seatsLeft_dropW]
  split
  · cases hm : minVoteOf A s.hopeful with
    | none => rfl
    | some lv =>
      simp only
      rw [dropW_breakTie]
      have hI1 := hI.breakTie A (s.hopeful.filter (fun c => A.eq c.vote lv)) "Break tie (defeat low candidate)"
      have hL1 := hL.breakTie A u hI.meth (s.hopeful.filter (fun c => A.eq c.vote lv)) "Break tie (defeat low candidate)"
      have hfr := (breakTie_frame A s (s.hopeful.filter (fun c => A.eq c.vote lv)) "Break tie (defeat low candidate)").1
      have hmem := breakTie_mem A s (s.hopeful.filter (fun c => A.eq c.vote lv)) "Break tie (defeat low candidate)"
      cases hb : breakTie A s (s.hopeful.filter (fun c => A.eq c.vote lv)) "Break tie (defeat low candidate)" with
      | mk s1 oc =>
        rw [hb] at hI1 hL1 hfr hmem
        cases oc with
        | none => rfl
        | some lc =>
          simp only
          have hlh : lc ∈ s.hopeful := (List.mem_filter.1 (hmem lc rfl)).1
          have hn1 : NonWId s1 lc.cid := nonWId_of_cands (nonWId_of_hopeful hlh) hfr
          have hI4 := hI1.defeat A lc.cid "Defeat low candidate"
          have hL4 := hL1.defeat A u hI1.meth lc.cid "Defeat low candidate"
          have hq4 : 0 < (s1.defeat A lc.cid "Defeat low candidate").quota := lt_of_lt_of_le hA.one_pos hL4.q1
          rw [← dropW_defeat A hI1.wf hn1]
          generalize s1.defeat A lc.cid "Defeat low candidate" = s4 at *
          unfold mplsAfterDefeatLow
          simp only [hopeful_dropW, seatsLeft_dropW]
          split
          · show dropW (mplsLogTransfer A (defeatedCore A s4 [lc.cid]) "Transfer defeated" [lc.cid])
              = mplsLogTransfer A (defeatedCore A (dropW s4) [lc.cid]) "Transfer defeated" [lc.cid]
            rw [dropW_mplsLogTransfer A hA hlt (wz_defeatedCore A hA hI4 hL4.wz _) (by rw [quota_defeatedCore]; exact hq4),
              dropW_defeatedCore]
          · rfl
  · rfl

theorem mplsFinish_dropW (s : St α) : mplsFinish (dropW s) = (dropW (mplsFinish s).1, (mplsFinish s).2) := by
  unfold mplsFinish
  simp only [hopeful_dropW, seatsLeft_dropW]
  split <;> rfl

include hA hlt in
theorem dropW_mplsRound (u : α) {s : St α} (hI : Inv A s) (hL : LInv A u s) (hnu : NoUnd s) :
    mplsRound A (dropW s) = (dropW (mplsRound A s).1, (mplsRound A s).2) := by
  unfold mplsRound
  rw [mplsDefeatSet_dropW A hnu]
  simp only [hopeful_dropW]
  have hq : hasQuotaGE A (dropW s) = hasQuotaGE A s := by funext c; rfl
  rw [hq]
  split
  · exact dropW_mplsDefeatMany A hA hlt u hI hL _ (mplsDefeatSet_hopeful A s)
  · split
    · rename_i h hs heq
      apply dropW_mplsElectSurplus A hA hlt u hI hL
      intro w hw
      have : w ∈ (byVote A true s.hopeful).filter (hasQuotaGE A s) := by rw [heq]; exact hw
      exact (mem_pySorted _ _ _ _).1 (List.mem_filter.1 this).1
    · rw [← dropW_mplsDefeatLow A hA hlt u hI hL]
      exact mplsFinish_dropW _

include hA hlt in
theorem dropW_mplsBody (u : α) {s : St α} (hI : Inv A s) (hL : LInv A u s) (hnu : NoUnd s) :
    mplsBody A (dropW s) = (dropW (mplsBody A s).1, (mplsBody A s).2) := by
  have hq : 0 < s.quota := lt_of_lt_of_le hA.one_pos hL.q1
  have hIc : Inv A (mplsCountVotes A s) := hI.mplsCountVotes A
  have hLc : LInv A u (mplsCountVotes A s) := by
    unfold mplsCountVotes
    exact (hL.setSurplus A u (mplsSurplusAll A s true)).logAct A u hI.meth "count" "Count Votes" [] (by decide)
  have hnuc : NoUnd (mplsCountVotes A s) := by
    unfold mplsCountVotes
    exact NoUnd.logAct A (NoUnd.of_cands (t := s.setSurplus (mplsSurplusAll A s true)) hnu rfl) _ _ _
  have hnur : NoUnd ((mplsCountVotes A s).newRound A) := by
    unfold St.newRound
    exact NoUnd.logAct A (NoUnd.of_cands (t := { mplsCountVotes A s with round := (mplsCountVotes A s).round + 1 }) hnuc rfl) _ _ _
  unfold mplsBody
  rw [← dropW_mplsCountVotes A hA hlt hL.wz hq]
  simp only [elected_dropW, seats_dropW, mplsAtThreshold_dropW]
  split
  · exact dropW_mplsElectThreshold A hIc.wf
  · rw [← dropW_newRound]
    exact dropW_mplsRound A hA hlt u (hIc.newRound A) (hLc.newRound A u hIc.meth) hnur

theorem dropW_mplsInit (s0 : St α) : dropW (mplsInit A s0) = mplsInit A (dropW s0) := by
  unfold mplsInit
  rw [dropW_newRound, dropW_setExhausted, dropW_firstCount, dropW_setQuota]
  rfl

theorem dropW_mplsEpilogue {s : St α} (hwf : s.WF) : dropW (mplsEpilogue A s) = mplsEpilogue A (dropW s) := by
  unfold mplsEpilogue
  simp only [hopeful_dropW, seatsLeft_dropW]
  have h6 : dropW (if decide ((s.hopeful.length : Int) ≤ s.seatsLeft) then
              s.hopeful.foldl (fun acc c => acc.elect A c.cid "Elect remaining candidates" false) s else s)
      = (if decide ((s.hopeful.length : Int) ≤ s.seatsLeft) then
              s.hopeful.foldl (fun acc c => acc.elect A c.cid "Elect remaining candidates" false) (dropW s) else dropW s) := by
    split
    · exact dropW_foldElect A _ (fun _ => "Elect remaining candidates") (fun _ => false) hwf (fun w hw => nonWId_of_hopeful hw)
    · rfl
  have hwf6 : (if decide ((s.hopeful.length : Int) ≤ s.seatsLeft) then
              s.hopeful.foldl (fun acc c => acc.elect A c.cid "Elect remaining candidates" false) s else s).WF := by
    split
    · exact WF_foldElect A hwf _ (fun _ => "Elect remaining candidates") (fun _ => false)
    · exact hwf
  rw [← h6]
  generalize (if decide ((s.hopeful.length : Int) ≤ s.seatsLeft) then
              s.hopeful.foldl (fun acc c => acc.elect A c.cid "Elect remaining candidates" false) s else s) = s6 at *
  simp only [hopeful_dropW]
  exact dropW_foldDefeat A _ (fun _ => "Defeat remaining candidates") hwf6 (fun w hw => nonWId_of_hopeful hw)

/-- **C11, second clause, Minneapolis** (profiles without undeclared write-ins): counting the profile with the withdrawn
    candidates deleted gives exactly the state (record included) obtained by deleting them from the count of the full profile -/
theorem mpls_dropW (hA : LawfulArith A) (hlt : ∀ a b : α, A.lt a b = true ↔ a < b) (hex : A.exact = false)
    (u : α) (hu : 0 ≤ u) (hlow : RewLower A u (rewMulDiv A)) (s0 t t' : St α)
    (h0 : GStart A (mplsQuota A s0) s0) (hnu : NoUnd s0)
    (hl0 : LStart A (A.ofInt (pdiv s0.nballots (s0.seats + 1) + 1)) s0)
    (h : mplsCount A s0 = some t) (h' : mplsCount A (dropW s0) = some t') :
    t' = dropW t := by
  have hM0 : MplsInv A (mplsInit A s0) := (mplsInit_inv A hA h0 hnu).1
  have hL0 : LInv A u (mplsInit A s0) := by
    obtain ⟨hc, hm⟩ := LInv.initCore A hA u hl0
    unfold mplsInit
    exact hc.newRound A u hm
  have hstep : ∀ s, MplsInv A s ∧ LInv A u s → MplsInv A (mplsBody A s).1 ∧ LInv A u (mplsBody A s).1 := fun s hs =>
    ⟨(mplsBody_spec A hA hex hs.1).1, (InvL.mplsBody A hA u hu hlow hex ⟨hs.1.1.1, hs.2⟩).2⟩
  unfold mplsCount at h h'
  cases hl : loopN (fun _ => true) (mplsBody A) (2 * s0.cands.length + 4) (mplsInit A s0) with
  | none => rw [hl] at h; cases h
  | some s4 =>
    rw [hl] at h
    cases hl' : loopN (fun _ => true) (mplsBody A) (2 * (dropW s0).cands.length + 4) (mplsInit A (dropW s0)) with
    | none => rw [hl'] at h'; cases h'
    | some s4' =>
      rw [hl'] at h'
      have ht : t = mplsEpilogue A s4 := (Option.some.inj h).symm
      have ht' : t' = mplsEpilogue A s4' := (Option.some.inj h').symm
      have hlen : (dropW s0).cands.length ≤ s0.cands.length := List.length_filter_le _ _
      rw [← dropW_mplsInit] at hl'
      have h1 := loopN_fuel_mono (fun _ => true) (mplsBody A) _ _ _ hl' (2 * s0.cands.length + 4) (by omega)
      have h2 := loopN_dropW (fun s => MplsInv A s ∧ LInv A u s) (fun _ => true) (mplsBody A)
        (fun s hs _ _ => hstep s hs) (fun _ => rfl)
        (fun s hs => dropW_mplsBody A hA hlt u hs.1.1.1 hs.2 hs.1.2.2.2.2)
        (2 * s0.cands.length + 4) _ ⟨hM0, hL0⟩
      rw [hl, h1] at h2
      have h4 : s4' = dropW s4 := by simpa using h2
      have hP := loopN_preserves_guard (fun s => MplsInv A s ∧ LInv A u s) (fun _ => true) (mplsBody A)
        (fun s hs _ => hstep s hs) _ _ _ ⟨hM0, hL0⟩ hl
      rw [ht', ht, h4, dropW_mplsEpilogue A hP.1.1.1.wf]

end Droop
