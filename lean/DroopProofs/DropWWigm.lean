import DroopProofs.DropW

/-! # C11, wigm / wigm-prf / wigm-prf-batch (every configuration): the count of the profile with the withdrawn candidates
deleted is the count of the full profile with the withdrawn candidates deleted from its record -/
namespace Droop
variable {α : Type} [CommRing α] [LinearOrder α] [IsStrictOrderedRing α] (A : Arith α)

theorem WF_transferAll {s : St α} (hwf : s.WF) (cids : List Nat) (rew : α → α) : (transferAll A s cids rew).WF :=
  WF_of_skel (transferAll_skel A s cids rew).symm hwf

theorem WF_breakTie {s : St α} (hwf : s.WF) (tied : List (Cand α)) (verb : String) : (breakTie A s tied verb).1.WF := by
  unfold St.WF; rw [(breakTie_frame A s tied verb).1]; exact hwf

theorem nonWId_breakTie {s : St α} {c : Nat} (h : NonWId s c) (tied : List (Cand α)) (verb : String) :
    NonWId (breakTie A s tied verb).1 c := nonWId_of_cands h (breakTie_frame A s tied verb).1

theorem WF_foldElect {s : St α} (hwf : s.WF) (ws : List (Cand α)) (verb : Cand α → String) (pend : Cand α → Bool) :
    (ws.foldl (fun acc c => acc.elect A c.cid (verb c) (pend c)) s).WF := by
  induction ws generalizing s with
  | nil => exact hwf
  | cons w ws ih => simp only [List.foldl_cons]; exact ih (WF_elect A hwf _ _ _)

theorem WF_foldDefeat {s : St α} (hwf : s.WF) (ws : List (Cand α)) (verb : Cand α → String) :
    (ws.foldl (fun acc c => acc.defeat A c.cid (verb c)) s).WF := by
  induction ws generalizing s with
  | nil => exact hwf
  | cons w ws ih => simp only [List.foldl_cons]; exact ih (WF_defeat A hwf _ _)

theorem nonWId_foldDefeat {s : St α} {c : Nat} (h : NonWId s c) (ws : List (Cand α)) (verb : Cand α → String) :
    NonWId (ws.foldl (fun acc c => acc.defeat A c.cid (verb c)) s) c := by
  induction ws generalizing s with
  | nil => exact h
  | cons w ws ih => simp only [List.foldl_cons]; exact ih (nonWId_defeat A h _ _)

/-! ## the steps of a round -/

theorem dropW_wigmElect (o : WigmOpts) {s : St α} (hwf : s.WF) :
    dropW (wigmElect A o s) = wigmElect A o (dropW s) := by
  unfold wigmElect electWinners
  simp only [hopeful_dropW]
  have hq : (if o.prf then hasQuotaGE A else hasQuotaX A) (dropW s) = (if o.prf then hasQuotaGE A else hasQuotaX A) s := by
    funext c; split <;> rfl
  rw [hq]
  apply dropW_foldElect A _ _ _ hwf
  intro w hw
  rw [List.mem_filter] at hw
  exact nonWId_of_hopeful ((mem_pySorted _ _ _ _).1 hw.1)

theorem dropW_wigmSurplusStep (s : St α) : dropW (wigmSurplusStep A s) = wigmSurplusStep A (dropW s) := by
  unfold wigmSurplusStep
  simp only [pendingL_dropW]
  cases hm : maxVoteOf A s.pendingL with
  | none => rfl
  | some hv =>
    simp only
    rw [dropW_breakTie]
    cases hb : breakTie A s (s.pendingL.filter (fun c => A.eq c.vote hv)) "Break tie (surplus)" with
    | mk s1 oc =>
      cases oc with
      | none => rfl
      | some hc => simp only; rw [dropW_transferSurplus, dropW_unpendLog]

theorem dropW_foldTransferDefeated1 (l : List (Cand α)) (verb : String) (s : St α) :
    dropW (l.foldl (fun acc c => transferDefeated A acc [c.cid] verb) s)
      = l.foldl (fun acc c => transferDefeated A acc [c.cid] verb) (dropW s) := by
  induction l generalizing s with
  | nil => rfl
  | cons c cs ih => simp only [List.foldl_cons]; rw [ih, dropW_transferDefeated]

theorem dropW_wigmDefeatStep (o : WigmOpts) {s : St α} (hwf : s.WF) :
    dropW (wigmDefeatStep A o s) = wigmDefeatStep A o (dropW s) := by
  unfold wigmDefeatStep
  simp only [hopeful_dropW, seatsLeft_dropW]
  cases hm : minVoteOf A s.hopeful with
  | none => rfl
  | some lv =>
    simp only
    split
    · rw [dropW_foldTransferDefeated1]
      congr 1
      apply dropW_foldDefeat A _ (fun _ => "Defeat batch(zero)") hwf
      intro w hw
      exact nonWId_of_hopeful (List.mem_filter.1 hw).1
    · rw [dropW_breakTie]
      have hmem := breakTie_mem A s (s.hopeful.filter (fun c => A.eq c.vote lv)) "Break tie (defeat)"
      cases hb : breakTie A s (s.hopeful.filter (fun c => A.eq c.vote lv)) "Break tie (defeat)" with
      | mk s1 oc =>
        rw [hb] at hmem
        cases oc with
        | none => rfl
        | some lc =>
          simp only
          have hl := hmem lc rfl
          have hnw : NonWId s1 lc.cid := by
            have := nonWId_breakTie A (nonWId_of_hopeful (List.mem_filter.1 hl).1)
              (s.hopeful.filter (fun c => A.eq c.vote lv)) "Break tie (defeat)"
            rw [hb] at this; exact this
          have hwf1 : s1.WF := by
            have := WF_breakTie A hwf (s.hopeful.filter (fun c => A.eq c.vote lv)) "Break tie (defeat)"
            rw [hb] at this; exact this
          rw [dropW_transferDefeated, dropW_defeat A hwf1 hnw]

theorem wigmSure_dropW (o : WigmOpts) (s : St α) : wigmSure A o (dropW s) = wigmSure A o s := by
  unfold wigmSure batchDefeatGroups
  simp only [hopeful_dropW, seatsLeft_dropW, pendingL_dropW, quota_dropW]

theorem dropW_wigmDefeatSure {s : St α} (hwf : s.WF) (sure : List (Cand α)) (hs : ∀ w ∈ sure, w ∈ s.hopeful) :
    dropW (wigmDefeatSure A s sure) = wigmDefeatSure A (dropW s) sure := by
  unfold wigmDefeatSure
  apply dropW_foldDefeat A _ (fun _ => "Defeat sure loser") hwf
  intro w hw
  exact nonWId_of_hopeful (hs w ((mem_pySorted _ _ _ _).1 hw))

theorem dropW_wigmBatchStep {s : St α} (hwf : s.WF) (sure : List (Cand α)) (hs : ∀ w ∈ sure, w ∈ s.hopeful) :
    (wigmBatchStep A (dropW s) sure) = (dropW (wigmBatchStep A s sure).1, (wigmBatchStep A s sure).2) := by
  unfold wigmBatchStep
  rw [← dropW_wigmDefeatSure A hwf sure hs]
  simp only [hopeful_dropW, seatsLeft_dropW]
  split
  · rfl
  · simp only; rw [dropW_transferDefeated]

theorem dropW_wigmAfterElect (o : WigmOpts) {s : St α} (hwf : s.WF) :
    wigmAfterElect A o (dropW s) = (dropW (wigmAfterElect A o s).1, (wigmAfterElect A o s).2) := by
  unfold wigmAfterElect
  simp only [wigmSure_dropW, pendingL_dropW, hopeful_dropW]
  split
  · apply dropW_wigmBatchStep A hwf
    intro w hw
    unfold wigmSure at hw
    split at hw
    · exact batchDefeatGroups_hopeful A s _ w hw
    · cases hw
  · split
    · simp only; rw [dropW_wigmSurplusStep]
    · split
      · simp only; rw [dropW_wigmDefeatStep A o hwf]
      · rfl

theorem dropW_wigmBody (o : WigmOpts) {s : St α} (hwf : s.WF) :
    wigmBody A o (dropW s) = (dropW (wigmBody A o s).1, (wigmBody A o s).2) := by
  unfold wigmBody
  have hwf1 : (s.newRound A).WF := by unfold St.newRound; exact WF_logAct A (by exact hwf) _ _ _
  have hwf2 : (wigmElect A o (s.newRound A)).WF := by
    unfold wigmElect electWinners; exact WF_foldElect A hwf1 _ _ _
  rw [← dropW_newRound, ← dropW_wigmElect A o hwf1]
  exact dropW_wigmAfterElect A o hwf2

theorem stdGuard_dropW (s : St α) : stdGuard (dropW s) = stdGuard s := by
  unfold stdGuard; simp only [hopeful_dropW, seatsLeft_dropW]

/-- the fuelled loop commutes with the deletion, given that the body does on states satisfying a round invariant -/
theorem loopN_dropW (P : St α → Prop) (guard : St α → Bool) (body : St α → St α × Flow)
    (hP : ∀ s, P s → guard s = true → (body s).2 = .cont → P (body s).1)
    (hg : ∀ s, guard (dropW s) = guard s)
    (hb : ∀ s, P s → body (dropW s) = (dropW (body s).1, (body s).2)) :
    ∀ (fuel : Nat) (s : St α), P s → loopN guard body fuel (dropW s) = (loopN guard body fuel s).map dropW := by
  intro fuel
  induction fuel with
  | zero => intro s _; rfl
  | succ n ih =>
    intro s hPs
    unfold loopN
    simp only [crash_dropW, hg]
    by_cases hc : s.crash.isSome = true
    · simp [hc]
    · simp only [hc, Bool.false_eq_true, if_false]
      by_cases hgs : guard s = true
      · simp only [hgs, if_true]
        rw [hb s hPs]
        cases hbody : body s with
        | mk s' fl =>
          have hP' := hP s hPs hgs
          rw [hbody] at hP'
          cases fl with
          | cont => simp only; exact ih s' (hP' rfl)
          | brk => rfl
      · simp [hgs]

theorem dropW_epilogue {s : St α} (hwf : s.WF) :
    dropW (epilogueElectOrDefeat A s) = epilogueElectOrDefeat A (dropW s) := by
  unfold epilogueElectOrDefeat
  dsimp only
  simp only [pendingL_dropW]
  rw [← dropW_foldUnpend]
  have hwf5 : (s.pendingL.foldl (fun acc c => acc.unpendSilent c.cid) s).WF := by
    have : ∀ (l : List (Cand α)) (t : St α), t.WF → (l.foldl (fun acc c => acc.unpendSilent c.cid) t).WF := by
      intro l; induction l with
      | nil => intro t h; exact h
      | cons c cs ih => intro t h; simp only [List.foldl_cons]; exact ih _ (WF_upd h _ _ (fun _ => rfl))
    exact this _ _ hwf
  generalize s.pendingL.foldl (fun acc c => acc.unpendSilent c.cid) s = s5 at *
  simp only [hopeful_dropW]
  have key : ∀ (l : List (Cand α)) (t : St α), t.WF → (∀ w ∈ l, NonWId t w.cid) →
      dropW (l.foldl (fun acc c => if acc.elected.length < acc.seats then acc.elect A c.cid "Elect remaining" false
          else acc.defeat A c.cid "Defeat remaining") t)
        = l.foldl (fun acc c => if acc.elected.length < acc.seats then acc.elect A c.cid "Elect remaining" false
          else acc.defeat A c.cid "Defeat remaining") (dropW t) := by
    intro l
    induction l with
    | nil => intro t _ _; rfl
    | cons w ws ih =>
      intro t ht hl
      simp only [List.foldl_cons, elected_dropW, seats_dropW]
      split
      · rw [ih _ (WF_elect A ht _ _ _) (fun w' hw' => nonWId_elect A (hl w' (by simp [hw'])) _ _ _),
          dropW_elect A ht (hl w (by simp))]
      · rw [ih _ (WF_defeat A ht _ _) (fun w' hw' => nonWId_defeat A (hl w' (by simp [hw'])) _ _),
          dropW_defeat A ht (hl w (by simp))]
  exact key _ _ hwf5 (fun w hw => nonWId_of_hopeful hw)

theorem dropW_wigmInit (o : WigmOpts) (s0 : St α) : dropW (wigmInit A o s0) = wigmInit A o (dropW s0) := by
  unfold wigmInit
  rw [dropW_logAct, dropW_setExhausted, dropW_firstCount, dropW_setQuota]
  rfl

/-- more fuel does not change what the loop returns -/
theorem loopN_fuel_mono (guard : St α → Bool) (body : St α → St α × Flow) :
    ∀ (n : Nat) (s t : St α), loopN guard body n s = some t → ∀ m, n ≤ m → loopN guard body m s = some t := by
  intro n
  induction n with
  | zero => intro s t h; simp [loopN] at h
  | succ n ih =>
    intro s t h m hm
    obtain ⟨m', rfl⟩ : ∃ m', m = m' + 1 := ⟨m - 1, by omega⟩
    unfold loopN at h ⊢
    by_cases hc : s.crash.isSome = true
    · simp only [hc, if_true] at h ⊢; exact h
    · simp only [hc, Bool.false_eq_true, if_false] at h ⊢
      by_cases hg : guard s = true
      · simp only [hg, if_true] at h ⊢
        cases hb : body s with
        | mk s' fl =>
          rw [hb] at h
          cases fl with
          | cont => simp only at h ⊢; exact ih s' t h m' (by omega)
          | brk => exact h
      · simp only [hg, Bool.false_eq_true, if_false] at h ⊢; exact h

/-- **C11, second clause, wigm / wigm-prf / wigm-prf-batch (every configuration)**: counting the profile with the withdrawn
    candidates deleted gives exactly the state (record included) obtained by deleting them from the count of the full profile -/
theorem wigm_dropW (hA : LawfulArith A) (hr : EqRefl A) (u : α) (hu : 0 ≤ u) (hlow : RewLower A u (rewMulDiv A))
    (o : WigmOpts) (hex : o.prf = true → A.exact = false) (s0 t t' : St α) (h0 : GStart A (wigmQuota A o s0) s0)
    (hl0 : LStart A (wigmQuota A o s0) s0) (h : wigmCount A o s0 = some t) (h' : wigmCount A o (dropW s0) = some t') :
    t' = dropW t := by
  have hinit := WigmAll.init A hA u o h0 hl0
  unfold wigmCount at h h'
  cases hl : loopN stdGuard (wigmBody A o) (2 * s0.cands.length + 3) (wigmInit A o s0) with
  | none => rw [hl] at h; cases h
  | some s4 =>
    rw [hl] at h
    cases hl' : loopN stdGuard (wigmBody A o) (2 * (dropW s0).cands.length + 3) (wigmInit A o (dropW s0)) with
    | none => rw [hl'] at h'; cases h'
    | some s4' =>
      rw [hl'] at h'
      have ht : t = epilogueElectOrDefeat A s4 := (Option.some.inj h).symm
      have ht' : t' = epilogueElectOrDefeat A s4' := (Option.some.inj h').symm
      have hlen : (dropW s0).cands.length ≤ s0.cands.length := List.length_filter_le _ _
      rw [← dropW_wigmInit] at hl'
      have h1 := loopN_fuel_mono stdGuard (wigmBody A o) _ _ _ hl' (2 * s0.cands.length + 3) (by omega)
      have h2 := loopN_dropW (WigmAll A u) stdGuard (wigmBody A o)
        (fun s hs hg _ => (wigmBody_spec_all A hA hr u hu hlow o hex hs hg).1)
        (stdGuard_dropW) (fun s hs => dropW_wigmBody A o hs.1.1.1.wf) (2 * s0.cands.length + 3) _ hinit
      rw [hl, h1] at h2
      have h4 : s4' = dropW s4 := by simpa using h2
      have hP := loopN_preserves_guard (WigmAll A u) stdGuard (wigmBody A o)
        (fun s hs hg => (wigmBody_spec_all A hA hr u hu hlow o hex hs hg).1) _ _ _ hinit hl
      rw [ht', ht, h4, dropW_epilogue A hP.1.1.1.wf]

end Droop
