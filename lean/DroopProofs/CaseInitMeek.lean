import DroopProofs.CaseInit
import DroopProofs.MeekRun

/-! # The state the driver builds from a parsed case meets `MInit` (the start predicate of the Meek / Warren theorems) -/
namespace Droop
variable {α : Type} [CommRing α] [LinearOrder α] [IsStrictOrderedRing α] (A : Arith α)

theorem sum_ofInt_mults (hA : LawfulArith A) (l : List (Nat × List Nat)) :
    ((l.map (fun (k : Nat × List Nat) => ({ mult := k.1, rank := k.2, idx := 0, w := A.one, residual := A.zero } : Ballot α))).map
        (fun b => A.ofInt b.mult)).sum = A.ofInt (((l.map (·.1)).sum : Nat) : Int) := by
  induction l with
  | nil => simp [hA.ofInt_eq]
  | cons k ks ih =>
    simp only [List.map_cons, List.sum_cons, ih]
    rw [hA.ofInt_eq, hA.ofInt_eq, hA.ofInt_eq]
    push_cast
    ring

theorem initState_minit (hA : LawfulArith A) (c : Case) (hm : methodOf c.rule = .meek) (hok : CaseOK c) :
    MInit A (initState A c) := by
  refine ⟨hm, rfl, ?_, ?_, ?_, ?_, ?_, ?_⟩
  · unfold St.WF; rw [initState_cids]; exact hok.nodup
  · show (c.ballotsEq.map _) = []
    rw [hok.noEq]; rfl
  · intro b hb
    obtain ⟨k, hk, _, hr, hi, _⟩ := mem_initState_ballots A hb
    obtain ⟨hne, hall⟩ := hok.ballots k hk
    cases hk2 : k.2 with
    | nil => exact absurd hk2 hne
    | cons c0 rest =>
      have htop : b.top = some c0 := by
        unfold Ballot.top; rw [hr, hi, hk2]; rfl
      obtain ⟨kc, hkc, hkcid, hkw⟩ := hall c0 (by rw [hk2]; simp)
      obtain ⟨x, hx, hxc, hxs⟩ := initState_cand_of A hkc
      refine ⟨c0, htop, x, hx, hxc.trans hkcid, ?_⟩
      rw [hxs, hkw]; rfl
  · intro x hx
    obtain ⟨k, _, _, hs, hv, _, _, hkf⟩ := mem_initState_cands A hx
    refine ⟨by rw [hv, hA.zero_eq], hkf, ?_⟩
    rw [hs]; split
    · right; rfl
    · left; rfl
  · show A.zero = 0
    exact hA.zero_eq
  · show ((c.ballots.map _).map (fun b : Ballot α => A.ofInt b.mult)).sum = A.ofInt ((c.nballots : Nat) : Int)
    rw [hok.nb]
    exact sum_ofInt_mults A hA c.ballots

end Droop
