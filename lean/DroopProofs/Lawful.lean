import DroopProofs.GuardedLaws
import DroopProofs.Tally
import Mathlib.Algebra.Order.Ring.Rat
import Mathlib.Algebra.Order.Ring.Int

/-! # LawfulArith: what the counting proofs need from an arithmetic, and the three instances -/
namespace Droop

/-- the facts about an arithmetic dictionary used by the Gregory invariants -/
structure LawfulArith {α : Type} [CommRing α] [LinearOrder α] [IsStrictOrderedRing α] (A : Arith α) : Prop where
  add_eq : ∀ a b, A.add a b = a + b
  sub_eq : ∀ a b, A.sub a b = a - b
  zero_eq : A.zero = 0
  one_pos : 0 < A.one
  ofInt_eq : ∀ n : Int, A.ofInt n = (n : α) * A.one
  /-- weight × multiplier is exact -/
  mulV_ofInt : ∀ (w : α) (m : Int), A.mulV w (A.ofInt m) = w * (m : α)
  /-- surplus re-weighting `(w * s) / v` never rounds up and never goes negative -/
  rew_nonneg : ∀ w s v : α, 0 ≤ w → 0 ≤ s → 0 < v → 0 ≤ A.divV (A.mulV w s) v
  rew_le : ∀ w s v : α, 0 ≤ w → 0 ≤ s → 0 < v → A.divV (A.mulV w s) v * v ≤ w * s
  muldiv_nonneg : ∀ w s v : α, 0 ≤ w → 0 ≤ s → 0 < v → 0 ≤ A.muldiv .down w s v
  muldiv_le : ∀ w s v : α, 0 ≤ w → 0 ≤ s → 0 < v → A.muldiv .down w s v * v ≤ w * s
  /-- `>=` as used by hasQuota implies the order on values (up to the tolerance for guarded, which is 0 otherwise) -/
  ge_sound : ∀ a b, A.exact = false → A.ge a b = true → b ≤ a
  gt_sound : ∀ a b, A.gt a b = true → b < a

theorem lawfulAdd_of {α : Type} [CommRing α] [LinearOrder α] [IsStrictOrderedRing α] {A : Arith α}
    (h : LawfulArith A) : LawfulAdd A := ⟨h.add_eq, h.sub_eq, h.zero_eq⟩

theorem pdiv_mul_le (a b : Int) (hb : 0 < b) : pdiv a b * b ≤ a := by
  unfold pdiv
  rw [Int.fdiv_eq_ediv_of_nonneg a (le_of_lt hb)]
  exact Int.ediv_mul_le a (ne_of_gt hb)

theorem pdiv_nonneg (a b : Int) (ha : 0 ≤ a) (hb : 0 < b) : 0 ≤ pdiv a b := by
  unfold pdiv
  rw [Int.fdiv_eq_ediv_of_nonneg a (le_of_lt hb)]
  exact Int.ediv_nonneg ha (le_of_lt hb)

theorem pdiv_mul_cancel (a b : Int) (hb : 0 < b) : pdiv (a * b) b = a := by
  unfold pdiv
  rw [Int.fdiv_eq_ediv_of_nonneg _ (le_of_lt hb)]
  exact Int.mul_ediv_cancel a (ne_of_gt hb)

theorem fixed_lawful (p : Nat) : LawfulArith (fixedArith p) := by
  have hS := pow10_pos p
  have hS0 : pow10 p ≠ 0 := ne_of_gt hS
  refine
    { add_eq := fun _ _ => rfl, sub_eq := fun _ _ => rfl, zero_eq := rfl, one_pos := hS,
      ofInt_eq := fun n => by simp [fixedArith],
      mulV_ofInt := ?_, rew_nonneg := ?_, rew_le := ?_, muldiv_nonneg := ?_, muldiv_le := ?_,
      ge_sound := ?_, gt_sound := ?_ }
  · intro w m
    show pdiv (w * (m * pow10 p)) (pow10 p) = w * m
    rw [← mul_assoc]; exact pdiv_mul_cancel _ _ hS
  · intro w s v hw hs hv
    have hv0 : (v == 0) = false := by simp; exact ne_of_gt hv
    show 0 ≤ (if (v == 0) = true then 0 else pdiv (pdiv (w * s) (pow10 p) * pow10 p) v)
    simp only [hv0, Bool.false_eq_true, if_false]
    exact pdiv_nonneg _ _ (mul_nonneg (pdiv_nonneg _ _ (mul_nonneg hw hs) hS) (le_of_lt hS)) hv
  · intro w s v hw hs hv
    have hv0 : (v == 0) = false := by simp; exact ne_of_gt hv
    show (if (v == 0) = true then 0 else pdiv (pdiv (w * s) (pow10 p) * pow10 p) v) * v ≤ w * s
    simp only [hv0, Bool.false_eq_true, if_false]
    exact le_trans (pdiv_mul_le _ _ hv) (pdiv_mul_le _ _ hS)
  · intro w s v hw hs hv
    have hv0 : (v == 0) = false := by simp; exact ne_of_gt hv
    show 0 ≤ divmodRound .down (w * s) v
    simp only [divmodRound, hv0, Bool.false_eq_true, if_false]
    simp
    exact pdiv_nonneg _ _ (mul_nonneg hw hs) hv
  · intro w s v hw hs hv
    have hv0 : (v == 0) = false := by simp; exact ne_of_gt hv
    show divmodRound .down (w * s) v * v ≤ w * s
    simp only [divmodRound, hv0, Bool.false_eq_true, if_false]
    simp
    exact pdiv_mul_le _ _ hv
  · intro a b _ h
    simp only [Arith.ge, fixedArith, intCmp] at h
    by_contra hlt
    have : a < b := by omega
    simp [this] at h
  · intro a b h
    simp only [Arith.gt, fixedArith, intCmp] at h
    by_contra hle
    have hle' : a ≤ b := by omega
    by_cases h1 : a < b
    · simp [h1] at h
    · have : a = b := by omega
      simp [this] at h

end Droop
