import DroopProofs.SplitB
import DroopProofs.PermBPrf

/-! # C10 for the Meek family: splitting a ballot line through its multiplier (and merging, read backwards)

What one ballot credits in a Meek distribution is, for each candidate it passes, a share of its weight that depends only on the keep
factors and the ranking — not on the multiplier and not on the tallies — times the multiplier; the rest of the multiplier goes to the
residual.  `genFold_eq` makes that explicit (`credits`); two halves of a split line therefore credit, together, what the whole line
credits (`applyCr_add`).  The same development serves `distRankStep` (meek, warren) and `prfRankStep` (meek-prf): they differ only in
how a keep factor divides a weight. -/
namespace Droop
variable {α : Type} [CommRing α] [LinearOrder α] [IsStrictOrderedRing α] (A : Arith α)

/-- the common shape of `distRankStep` and `prfRankStep`; `keep kf w` = (share kept, weight passed on) -/
def genRankStep (keep : α → α → α × α) (mult : α) (acc : St α × α × α × Bool) (cid : Nat) : St α × α × α × Bool :=
  if acc.2.2.2 then acc else
  match kfOf acc.1 cid with
  | some kf =>
    if A.isZero kf then acc else
    ((acc.1.addVote A cid (A.mulV (keep kf acc.2.1).1 mult), (keep kf acc.2.1).2, A.sub acc.2.2.1 (A.mulV (keep kf acc.2.1).1 mult),
      A.le (keep kf acc.2.1).2 A.zero))
  | none => acc

theorem distRankStep_gen (w : Bool) : distRankStep A w = genRankStep A (keepWeight A w) := by
  funext mult acc cid
  unfold distRankStep genRankStep
  rfl

theorem prfRankStep_gen : prfRankStep A = genRankStep A (fun kf w => (A.mul .up w kf, A.sub w (A.mul .up w kf))) := by
  funext mult acc cid
  unfold prfRankStep genRankStep
  rfl

/-- the shares a ranking receives: (candidate, share) in the order credited, then the weight and stop flag left -/
def credits (keep : α → α → α × α) (kf : Nat → Option α) : List Nat → α → Bool → List (Nat × α) × α × Bool
  | [], w, stop => ([], w, stop)
  | cid :: rest, w, stop =>
    if stop then ([], w, stop) else
    match kf cid with
    | some k =>
      if A.isZero k then credits keep kf rest w stop
      else
        let r := credits keep kf rest (keep k w).2 (A.le (keep k w).2 A.zero)
        ((cid, (keep k w).1) :: r.1, r.2)
    | none => credits keep kf rest w stop

def applyCr (cr : List (Nat × α)) (m : Int) (s : St α) : St α :=
  cr.foldl (fun st (e : Nat × α) => st.addVote A e.1 (A.mulV e.2 (A.ofInt m))) s

def crSum (cr : List (Nat × α)) : α := (cr.map (·.2)).sum

theorem genFold_stop (keep : α → α → α × α) (mult : α) (rank : List Nat) (s : St α) (w r : α) :
    rank.foldl (genRankStep A keep mult) (s, w, r, true) = (s, w, r, true) := by
  induction rank with
  | nil => rfl
  | cons c cs ih =>
    simp only [List.foldl_cons]
    have : genRankStep A keep mult (s, w, r, true) c = (s, w, r, true) := by unfold genRankStep; rfl
    rw [this, ih]

/-- a ranking's fold is: apply the credits, pass on what is left -/
theorem genFold_eq (hA : LawfulArith A) (keep : α → α → α × α) (m : Int) (rank : List Nat) :
    ∀ (s : St α) (w r : α) (stop : Bool),
      rank.foldl (genRankStep A keep (A.ofInt m)) (s, w, r, stop)
        = (applyCr A (credits A keep (kfOf s) rank w stop).1 m s, (credits A keep (kfOf s) rank w stop).2.1,
           r - crSum (credits A keep (kfOf s) rank w stop).1 * (m : α), (credits A keep (kfOf s) rank w stop).2.2) := by
  induction rank with
  | nil => intro s w r stop; simp [credits, applyCr, crSum]
  | cons c cs ih =>
    intro s w r stop
    simp only [List.foldl_cons]
    by_cases hs : stop = true
    · subst hs
      have h1 : genRankStep A keep (A.ofInt m) (s, w, r, true) c = (s, w, r, true) := by unfold genRankStep; rfl
      rw [h1, genFold_stop]
      simp [credits, applyCr, crSum]
    · have hs' : stop = false := by simpa using hs
      subst hs'
      cases hk : kfOf s c with
      | none =>
        have hstep : genRankStep A keep (A.ofInt m) (s, w, r, false) c = (s, w, r, false) := by
          unfold genRankStep; simp only [Bool.false_eq_true, if_false, hk]
        rw [hstep, ih]
        simp only [credits, hk, Bool.false_eq_true, if_false]
      | some k =>
        by_cases hz : A.isZero k = true
        · have hstep : genRankStep A keep (A.ofInt m) (s, w, r, false) c = (s, w, r, false) := by
            unfold genRankStep; simp only [Bool.false_eq_true, if_false, hk, hz, if_true]
          rw [hstep, ih]
          simp only [credits, hk, hz, if_true, Bool.false_eq_true, if_false]
        · have hstep : genRankStep A keep (A.ofInt m) (s, w, r, false) c
              = (s.addVote A c (A.mulV (keep k w).1 (A.ofInt m)), (keep k w).2, A.sub r (A.mulV (keep k w).1 (A.ofInt m)),
                  A.le (keep k w).2 A.zero) := by
            unfold genRankStep; simp only [Bool.false_eq_true, if_false, hk, hz]
          rw [hstep, ih]
          have hkf : kfOf (s.addVote A c (A.mulV (keep k w).1 (A.ofInt m))) = kfOf s := by
            funext c'; exact kfOf_addVote A s c _ c'
          rw [hkf]
          simp only [credits, hk, hz, Bool.false_eq_true, if_false, applyCr, List.foldl_cons, crSum, List.map_cons, List.sum_cons,
            hA.sub_eq, hA.mulV_ofInt]
          refine Prod.ext rfl (Prod.ext rfl (Prod.ext ?_ rfl))
          simp only
          ring

/-! ## credits with two multipliers -/

theorem addVote_add (hA : LawfulArith A) (s : St α) (c : Nat) (v1 v2 : α) :
    (s.addVote A c v1).addVote A c v2 = s.addVote A c (v1 + v2) := by
  unfold St.addVote St.upd
  simp only [List.map_map]
  congr 1
  apply List.map_congr_left
  intro x _
  simp only [Function.comp]
  by_cases h : (x.cid == c) = true
  · simp only [h, if_true, hA.add_eq]; congr 1; ring
  · simp only [h, Bool.false_eq_true, if_false]

theorem applyCr_addVote (hA : LawfulArith A) (cr : List (Nat × α)) (m : Int) (s : St α) (c : Nat) (v : α) :
    applyCr A cr m (s.addVote A c v) = (applyCr A cr m s).addVote A c v := by
  unfold applyCr
  induction cr generalizing s with
  | nil => rfl
  | cons e es ih =>
    simp only [List.foldl_cons]
    rw [addVote_comm A hA, ih]

/-- the two halves credit what the whole credits -/
theorem applyCr_add (hA : LawfulArith A) (cr : List (Nat × α)) (m1 m2 : Int) (s : St α) :
    applyCr A cr m2 (applyCr A cr m1 s) = applyCr A cr (m1 + m2) s := by
  induction cr generalizing s with
  | nil => rfl
  | cons e es ih =>
    have h1 : applyCr A (e :: es) m1 s = applyCr A es m1 (s.addVote A e.1 (A.mulV e.2 (A.ofInt m1))) := rfl
    have h2 : ∀ t, applyCr A (e :: es) m2 t = applyCr A es m2 (t.addVote A e.1 (A.mulV e.2 (A.ofInt m2))) := fun _ => rfl
    have h3 : applyCr A (e :: es) (m1 + m2) s = applyCr A es (m1 + m2) (s.addVote A e.1 (A.mulV e.2 (A.ofInt (m1 + m2)))) := rfl
    rw [h1, h2, h3, ← applyCr_addVote A hA, ih, addVote_add A hA]
    congr 2
    simp only [hA.mulV_ofInt]
    push_cast; ring

theorem applyCr_residual (cr : List (Nat × α)) (m : Int) (s : St α) (x : α) :
    applyCr A cr m ({ s with residual := x } : St α) = { applyCr A cr m s with residual := x } := by
  unfold applyCr
  induction cr generalizing s with
  | nil => rfl
  | cons e es ih =>
    simp only [List.foldl_cons]
    have : (({ s with residual := x } : St α).addVote A e.1 (A.mulV e.2 (A.ofInt m)))
        = ({ s.addVote A e.1 (A.mulV e.2 (A.ofInt m)) with residual := x } : St α) := rfl
    rw [this]
    exact ih _

theorem applyCr_residual_get (cr : List (Nat × α)) (m : Int) (s : St α) : (applyCr A cr m s).residual = s.residual := by
  unfold applyCr
  induction cr generalizing s with
  | nil => rfl
  | cons e es ih => simp only [List.foldl_cons]; rw [ih]; rfl

theorem kfOf_applyCr (cr : List (Nat × α)) (m : Int) (s : St α) : kfOf (applyCr A cr m s) = kfOf s := by
  unfold applyCr
  induction cr generalizing s with
  | nil => rfl
  | cons e es ih =>
    simp only [List.foldl_cons]
    rw [ih]
    funext c'; exact kfOf_addVote A s _ _ c'

/-- one ballot line's step in the general shape -/
def genBallotStep (keep : α → α → α × α) (s : St α) (b : Ballot α) : St α :=
  { (b.rank.foldl (genRankStep A keep (A.ofInt b.mult)) (s, A.one, A.ofInt b.mult, false)).1 with
    residual := A.add (b.rank.foldl (genRankStep A keep (A.ofInt b.mult)) (s, A.one, A.ofInt b.mult, false)).1.residual
                  (b.rank.foldl (genRankStep A keep (A.ofInt b.mult)) (s, A.one, A.ofInt b.mult, false)).2.2.1 }

theorem genBallotStep_eq (hA : LawfulArith A) (keep : α → α → α × α) (s : St α) (b : Ballot α) (m : Nat) :
    genBallotStep A keep s { b with mult := m }
      = { applyCr A (credits A keep (kfOf s) b.rank A.one false).1 m s with
          residual := s.residual + ((m : Int) : α) * A.one - crSum (credits A keep (kfOf s) b.rank A.one false).1 * ((m : Int) : α) } := by
  unfold genBallotStep
  simp only
  rw [genFold_eq A hA keep (m : Int) b.rank s A.one (A.ofInt (m : Int)) false]
  simp only [hA.add_eq, applyCr_residual_get, hA.ofInt_eq]
  congr 1
  ring

/-- **the two halves of a split line distribute as the whole line** -/
theorem genBallotStep_split (hA : LawfulArith A) (keep : α → α → α × α) (s : St α) (b : Ballot α) (m1 : Nat) :
    (splitOne m1 b).foldl (genBallotStep A keep) s = genBallotStep A keep s b := by
  unfold splitOne
  simp only [List.foldl_cons, List.foldl_nil]
  have e1 := genBallotStep_eq A hA keep s b (min m1 b.mult)
  have e3 := genBallotStep_eq A hA keep s b b.mult
  have hb : ({ b with mult := b.mult } : Ballot α) = b := rfl
  rw [hb] at e3
  rw [e1, e3, genBallotStep_eq A hA keep _ b (b.mult - min m1 b.mult)]
  -- the keep factors of the intermediate state are those of `s`
  have hkf : kfOf ({ applyCr A (credits A keep (kfOf s) b.rank A.one false).1 (min m1 b.mult : Nat) s with
      residual := s.residual + (((min m1 b.mult : Nat) : Int) : α) * A.one
        - crSum (credits A keep (kfOf s) b.rank A.one false).1 * (((min m1 b.mult : Nat) : Int) : α) } : St α) = kfOf s := by
    have : ∀ (t : St α) (x : α), kfOf ({ t with residual := x } : St α) = kfOf t := fun _ _ => rfl
    rw [this, kfOf_applyCr]
  rw [hkf, applyCr_residual, applyCr_add A hA]
  have hle : min m1 b.mult ≤ b.mult := Nat.min_le_right _ _
  have h1 : ((min m1 b.mult : Nat) : Int) + ((b.mult - min m1 b.mult : Nat) : Int) = (b.mult : Int) := by omega
  rw [h1]
  congr 1
  simp only
  have h2 : (((min m1 b.mult : Nat) : Int) : α) + (((b.mult - min m1 b.mult : Nat) : Int) : α) = ((b.mult : Int) : α) := by
    rw [← Int.cast_add, h1]
  rw [← h2]
  ring

theorem distBallotStep_gen (w : Bool) : distBallotStep A w = genBallotStep A (keepWeight A w) := by
  funext s b
  unfold distBallotStep genBallotStep
  rw [distRankStep_gen]

theorem prfBallotStep_gen : prfBallotStep A = genBallotStep A (fun kf w => (A.mul .up w kf, A.sub w (A.mul .up w kf))) := by
  funext s b
  unfold prfBallotStep genBallotStep
  rw [prfRankStep_gen]

theorem mfcStep_split (hA : LawfulArith A) (st : St α) (b : Ballot α) (m1 : Nat) :
    (splitOne m1 b).foldl (mfcStep A) st = mfcStep A st b := by
  unfold splitOne
  simp only [List.foldl_cons, List.foldl_nil]
  unfold mfcStep
  have ht1 : ({ b with mult := min m1 b.mult } : Ballot α).top = b.top := rfl
  have ht2 : ({ b with mult := b.mult - min m1 b.mult } : Ballot α).top = b.top := rfl
  rw [ht1, ht2]
  cases b.top with
  | none => rfl
  | some c =>
    simp only
    rw [addVote_add A hA]
    congr 1
    simp only [hA.ofInt_eq]
    have hle : min m1 b.mult ≤ b.mult := Nat.min_le_right _ _
    have h1 : ((min m1 b.mult : Nat) : Int) + ((b.mult - min m1 b.mult : Nat) : Int) = (b.mult : Int) := by omega
    have h2 : (((min m1 b.mult : Nat) : Int) : α) + (((b.mult - min m1 b.mult : Nat) : Int) : α) = ((b.mult : Int) : α) := by
      rw [← Int.cast_add, h1]
    rw [← h2]; ring

theorem foldl_split (f : St α → Ballot α → St α) (hf : ∀ st b m1, (splitOne m1 b).foldl f st = f st b) (i m1 : Nat)
    (st : St α) (l : List (Ballot α)) : (splitBallots i m1 l).foldl f st = l.foldl f st := by
  unfold splitBallots
  conv_rhs => rw [← List.take_append_drop i l]
  rw [List.foldl_append, List.foldl_append]
  cases l.drop i with
  | nil => rfl
  | cons b r =>
    simp only [List.foldl_append, List.foldl_cons]
    rw [hf]

theorem splitViews_nil (i : Nat) : splitViews (α := α) i [] = [] := by
  unfold splitViews; simp

/-- splitting one ballot line is a transformation the Meek / Warren count commutes with -/
theorem XMeek_split (hA : LawfulArith A) (i m1 : Nat) : XMeek A (splitBallots (α := α) i m1) (splitViews i) :=
  { toXF := XF_split A hA i m1
    dist := fun w st l => by
      rw [distBallotStep_gen]
      exact foldl_split _ (fun st b m1 => genBallotStep_split A hA _ st b m1) i m1 st l
    mfirst := fun st l => foldl_split _ (fun st b m1 => mfcStep_split A hA st b m1) i m1 st l
    nil := splitViews_nil i }

/-- ... and the meek-prf count -/
theorem XPrf_split (hA : LawfulArith A) (i m1 : Nat) : XPrf A (splitBallots (α := α) i m1) (splitViews i) :=
  { toXF := XF_split A hA i m1
    prf := fun st l => by
      rw [prfBallotStep_gen]
      exact foldl_split _ (fun st b m1 => genBallotStep_split A hA _ st b m1) i m1 st l
    pfirst := fun st l => foldl_split _ (fun st b m1 => mfcStep_split A hA st b m1) i m1 st l
    nil := splitViews_nil i }

end Droop
