import DroopProofs.InvCfer

/-! # Minneapolis (mpls): every round preserves the bundle -/
namespace Droop
variable {α : Type} [CommRing α] [LinearOrder α] [IsStrictOrderedRing α] (A : Arith α)

/-! ## defeating a list with a per-candidate message -/
theorem foldDefeatV_ballots (ws : List (Cand α)) (verb : Cand α → String) (s : St α) :
    (ws.foldl (fun acc c => acc.defeat A c.cid (verb c)) s).ballots = s.ballots := by
  induction ws generalizing s with
  | nil => rfl
  | cons w ws ih => simp only [List.foldl_cons]; rw [ih, defeat_ballots]

theorem foldDefeatV_keeps (ws : List (Cand α)) (verb : Cand α → String) (s : St α) (c : Cand α) (hc : c ∈ s.cands)
    (hne : ∀ w ∈ ws, c.cid ≠ w.cid) : c ∈ (ws.foldl (fun acc c => acc.defeat A c.cid (verb c)) s).cands := by
  induction ws generalizing s with
  | nil => exact hc
  | cons w ws ih =>
    simp only [List.foldl_cons]
    apply ih
    · unfold St.defeat; rw [logAct_cands]; exact mem_upd_of_ne hc (hne w (by simp))
    · intro w' hw'; exact hne w' (by simp [hw'])

theorem foldDefeatV_mem (ws : List (Cand α)) (verb : Cand α → String) (s : St α)
    (hnd : (ws.map (·.cid)).Nodup) (hw : ∀ w ∈ ws, w ∈ s.cands) :
    ∀ w ∈ ws, ({ w with st := .defeated } : Cand α) ∈ (ws.foldl (fun acc c => acc.defeat A c.cid (verb c)) s).cands := by
  induction ws generalizing s with
  | nil => intro w hw; cases hw
  | cons x xs ih =>
    simp only [List.map_cons, List.nodup_cons, List.mem_map, not_exists, not_and] at hnd
    intro w hwm
    simp only [List.foldl_cons]
    rcases List.mem_cons.1 hwm with rfl | hwx
    · apply foldDefeatV_keeps
      · unfold St.defeat; rw [logAct_cands]
        exact mem_upd_of_eq (f := fun c => { c with st := .defeated }) (hw w (by simp)) rfl
      · intro w' hw' e
        exact hnd.1 w' hw' e.symm
    · apply ih _ hnd.2 _ w hwx
      intro w' hw'
      unfold St.defeat; rw [logAct_cands]
      exact mem_upd_of_ne (hw w' (by simp [hw'])) (fun e => hnd.1 w' hw' e)

theorem Inv.foldDefeatV {s : St α} (h : Inv A s) (ws : List (Cand α)) (verb : Cand α → String) :
    Inv A (ws.foldl (fun acc c => acc.defeat A c.cid (verb c)) s) := by
  induction ws generalizing s with
  | nil => exact h
  | cons w ws ih => simp only [List.foldl_cons]; exact ih (h.defeat A w.cid _)

theorem justDefeated_foldDefeatV {s : St α} (h : Inv A s) (ws : List (Cand α)) (verb : Cand α → String)
    (hnd : (ws.map (·.cid)).Nodup) (hw : ∀ w ∈ ws, w ∈ s.hopeful) :
    JustDefeated A (ws.foldl (fun acc c => acc.defeat A c.cid (verb c)) s) (ws.map (·.cid)) := by
  refine ⟨hnd, ?_⟩
  intro cid hcid
  obtain ⟨w, hwm, rfl⟩ := List.mem_map.1 hcid
  have hwc := mem_hopeful.1 (hw w hwm)
  have hmem := foldDefeatV_mem A ws verb s hnd (fun w' hw' => (mem_hopeful.1 (hw w' hw')).1) w hwm
  refine ⟨_, hmem, rfl, ?_, ?_, ?_⟩
  · intro hs; rcases hs with hs | ⟨hs, _⟩ <;> simp at hs
  · simp
  · have e1 : (ws.foldl (fun acc c => acc.defeat A c.cid (verb c)) s).tally A w.cid = s.tally A w.cid := by
      unfold St.tally; rw [foldDefeatV_ballots]
    show w.vote = _
    rw [e1]
    exact h.i1 w hwc.1 (Or.inl hwc.2)

/-! ## the steps -/
theorem Inv.mplsInit (hA : LawfulArith A) {s0 : St α} (h0 : Init A s0)
    (hq : 0 < A.ofInt (pdiv s0.nballots (s0.seats + 1) + 1)) : Inv A (Droop.mplsInit A s0) := by
  unfold Droop.mplsInit
  exact (Inv.initCore A hA _ h0 hq).newRound A

theorem Inv.mplsCountVotes {s : St α} (h : Inv A s) : Inv A (Droop.mplsCountVotes A s) := by
  unfold Droop.mplsCountVotes; exact (h.setSurplus A _).logAct A _ _ _

theorem Inv.mplsLogTransfer {s : St α} (h : Inv A s) (verb : String) (subj : List Nat) :
    Inv A (Droop.mplsLogTransfer A s verb subj) := by
  unfold Droop.mplsLogTransfer; exact (h.setSurplus A _).logAct A _ _ _

theorem Inv.mplsElectThreshold {s : St α} (h : Inv A s) : Inv A (Droop.mplsElectThreshold A s).1 := by
  unfold Droop.mplsElectThreshold; exact h.foldElectNP A _ _

theorem Inv.mplsDefeatMany (hA : LawfulArith A) {s : St α} (h : Inv A s) (l : List (Cand α))
    (hsub : ∀ w ∈ l, w ∈ s.hopeful) (hnd : (l.map (·.cid)).Nodup) : Inv A (Droop.mplsDefeatMany A s l).1 := by
  unfold Droop.mplsDefeatMany
  apply Inv.mplsLogTransfer
  have hj := justDefeated_foldDefeatV A h l mplsDefeatVerb hnd hsub
  exact (h.foldDefeatV A l mplsDefeatVerb).defeatedCore A hA _ hj.1 hj.2

end Droop

namespace Droop
variable {α : Type} [CommRing α] [LinearOrder α] [IsStrictOrderedRing α] (A : Arith α)

theorem mplsCertainLosers_go_sublist (surplus : α) (sorted : List (Cand α)) (maxDefeat : Int) :
    ∀ (fuel cx : Nat) (vote : α) (losers : List (Cand α)), losers.Sublist sorted →
      (mplsCertainLosers.go A surplus sorted maxDefeat cx fuel vote losers).Sublist sorted := by
  intro fuel
  induction fuel with
  | zero => intro cx vote losers hl; unfold mplsCertainLosers.go; exact hl
  | succ n ih =>
    intro cx vote losers hl
    unfold mplsCertainLosers.go
    dsimp only
    split
    · exact hl
    · split
      · split
        · exact hl
        · apply ih
          split
          · exact List.take_sublist _ _
          · exact hl
      · exact hl

theorem mplsCertainLosers_hopeful (s : St α) (surplus : α) : ∀ w ∈ mplsCertainLosers A s surplus, w ∈ s.hopeful := by
  intro w hw
  unfold mplsCertainLosers at hw
  have h1 := (mem_pySorted _ _ _ _).1 hw
  have h2 := (mplsCertainLosers_go_sublist A surplus _ _ _ _ _ _ (List.nil_sublist _)).subset h1
  exact (mem_pySorted _ _ _ _).1 h2

theorem mplsCertainLosers_nodup (s : St α) (hwf : s.WF) (surplus : α) :
    ((mplsCertainLosers A s surplus).map (·.cid)).Nodup := by
  unfold mplsCertainLosers
  have hp : ((byBallotOrder (mplsCertainLosers.go A surplus (byVote A false s.hopeful) ((s.hopeful.length : Int) - s.seatsLeft) 0
      (byVote A false s.hopeful).length A.zero [])).map (·.cid)).Perm
      ((mplsCertainLosers.go A surplus (byVote A false s.hopeful) ((s.hopeful.length : Int) - s.seatsLeft) 0
      (byVote A false s.hopeful).length A.zero []).map (·.cid)) := (pySorted_perm _ _ _).map _
  apply hp.nodup_iff.2
  apply List.Nodup.sublist ((mplsCertainLosers_go_sublist A surplus _ _ _ _ _ _ (List.nil_sublist _)).map _)
  have hp2 : ((byVote A false s.hopeful).map (·.cid)).Perm (s.hopeful.map (·.cid)) := (pySorted_perm _ _ _).map _
  exact hp2.nodup_iff.2 (hopeful_cids_nodup hwf)

theorem nodup_append_filter (a b : List (Cand α)) (ha : (a.map (·.cid)).Nodup) (hb : (b.map (·.cid)).Nodup) :
    ((a ++ b.filter (fun c => !a.any (fun u => u.cid == c.cid))).map (·.cid)).Nodup := by
  rw [List.map_append, List.nodup_append]
  refine ⟨ha, List.Nodup.sublist (List.Sublist.map _ List.filter_sublist) hb, ?_⟩
  intro x hx y hy
  obtain ⟨u, hu, rfl⟩ := List.mem_map.1 hx
  obtain ⟨c, hc, rfl⟩ := List.mem_map.1 hy
  rw [List.mem_filter] at hc
  intro e
  have : a.any (fun u' => u'.cid == c.cid) = true := List.any_eq_true.2 ⟨u, hu, by simp [e]⟩
  simp [this] at hc

theorem mplsDefeatSet_hopeful (s : St α) : ∀ w ∈ mplsDefeatSet A s, w ∈ s.hopeful := by
  intro w hw
  unfold mplsDefeatSet at hw
  rcases List.mem_append.1 hw with h | h
  · split at h
    · exact (List.mem_filter.1 h).1
    · cases h
  · exact mplsCertainLosers_hopeful A s _ w (List.mem_filter.1 h).1

theorem mplsDefeatSet_nodup (s : St α) (hwf : s.WF) : ((mplsDefeatSet A s).map (·.cid)).Nodup := by
  unfold mplsDefeatSet
  apply nodup_append_filter
  · split
    · exact List.Nodup.sublist (List.Sublist.map _ List.filter_sublist) (hopeful_cids_nodup hwf)
    · simp
  · exact mplsCertainLosers_nodup A s hwf _

theorem surplusCore_congr (s : St α) (c x : Cand α) (rew : α → α → α → α) (hc : x.cid = c.cid) (hv : x.vote = c.vote) :
    surplusCore A s c rew = surplusCore A s x rew := by
  unfold surplusCore; rw [hc, hv]

theorem Inv.mplsElectSurplus (hA : LawfulArith A) (hex : A.exact = false) {s : St α} (h : Inv A s) (hwq : List (Cand α)) (hv : α)
    (hsub : ∀ w ∈ hwq, w ∈ s.hopeful ∧ hasQuotaGE A s w = true) : Inv A (Droop.mplsElectSurplus A s hwq hv).1 := by
  unfold Droop.mplsElectSurplus
  have hI1 := h.breakTie A (hwq.filter (fun c => A.eq c.vote hv)) "Break tie (largest surplus)"
  have hfr := breakTie_frame A s (hwq.filter (fun c => A.eq c.vote hv)) "Break tie (largest surplus)"
  have hmem := breakTie_mem A s (hwq.filter (fun c => A.eq c.vote hv)) "Break tie (largest surplus)"
  cases hb : Droop.breakTie A s (hwq.filter (fun c => A.eq c.vote hv)) "Break tie (largest surplus)" with
  | mk s3 oc =>
    rw [hb] at hI1 hfr hmem
    cases oc with
    | none => exact hI1
    | some hc =>
      simp only
      apply Inv.mplsLogTransfer
      have hcm := hmem hc rfl
      rw [List.mem_filter] at hcm
      obtain ⟨hch, hcq⟩ := hsub hc hcm.1
      obtain ⟨hcs, hchop⟩ := mem_hopeful.1 hch
      obtain ⟨e1, e2, e3, e4, e5⟩ := hfr
      have hcs3 : hc ∈ s3.cands := by simp only at e1; rw [e1]; exact hcs
      have h4 := hI1.electNP A hc.cid "Elect"
      let x : Cand α := { hc with st := .elected, pending := false }
      have hx : x ∈ (s3.elect A hc.cid "Elect" false).cands := by
        unfold St.elect; rw [logAct_cands]
        exact mem_upd_of_eq (f := fun c => { c with st := .elected, pending := false }) hcs3 rfl
      have hcore : Droop.surplusCore A (s3.elect A hc.cid "Elect" false) hc (rewMulDiv A) =
          Droop.surplusCore A (s3.elect A hc.cid "Elect" false) x (rewMulDiv A) := surplusCore_congr A _ hc x _ rfl rfl
      show Inv A (Droop.surplusCore A (s3.elect A hc.cid "Elect" false) hc (rewMulDiv A))
      rw [hcore]
      apply h4.surplusCore A hA (rewMulDiv A) (rewMulDiv_law A hA) x hx
      · intro hs; rcases hs with hs | ⟨_, hp⟩ <;> simp [x] at *
      · simp [x]
      · have ht : (s3.elect A hc.cid "Elect" false).tally A x.cid = s.tally A hc.cid := by
          unfold St.tally St.elect
          rw [logAct_ballots]
          show (List.map _ s3.ballots).sum = _
          simp only at e2; rw [e2]
        rw [ht]
        exact h.i1 hc hcs (Or.inl hchop)
      · have hq : (s3.elect A hc.cid "Elect" false).quota = s.quota := by
          unfold St.elect; rw [logAct_quota]; simp only at e4; exact e4
        rw [hq]
        exact hasQuotaGE_sound A hA hex s hc hcq

theorem Inv.mplsDefeatLow (hA : LawfulArith A) {s : St α} (h : Inv A s) : Inv A (Droop.mplsDefeatLow A s) := by
  unfold Droop.mplsDefeatLow
  split
  · cases hm : minVoteOf A s.hopeful with
    | none => exact h
    | some lv =>
      simp only
      have hI1 := h.breakTie A (s.hopeful.filter (fun c => A.eq c.vote lv)) "Break tie (defeat low candidate)"
      have hfr := breakTie_frame A s (s.hopeful.filter (fun c => A.eq c.vote lv)) "Break tie (defeat low candidate)"
      have hmem := breakTie_mem A s (s.hopeful.filter (fun c => A.eq c.vote lv)) "Break tie (defeat low candidate)"
      cases hb : Droop.breakTie A s (s.hopeful.filter (fun c => A.eq c.vote lv)) "Break tie (defeat low candidate)" with
      | mk s1 oc =>
        rw [hb] at hI1 hfr hmem
        cases oc with
        | none => exact hI1
        | some lc =>
          simp only
          have hcm := hmem lc rfl
          rw [List.mem_filter] at hcm
          obtain ⟨hcs, hch⟩ := mem_hopeful.1 hcm.1
          obtain ⟨e1, e2, e3, e4, e5⟩ := hfr
          have hl1 : lc ∈ s1.hopeful := by
            apply mem_hopeful.2
            simp only at e1; rw [e1]; exact ⟨hcs, hch⟩
          unfold mplsAfterDefeatLow
          split
          · apply Inv.mplsLogTransfer
            have hj := justDefeated_foldDefeat A hI1 [lc] [lc] "Defeat low candidate" (List.Perm.refl _) (by simp)
              (by intro w hw; simp at hw; rw [hw]; exact hl1)
            simp only [List.foldl_cons, List.foldl_nil, List.map_cons, List.map_nil] at hj
            exact (hI1.defeat A lc.cid "Defeat low candidate").defeatedCore A hA [lc.cid] hj.1 hj.2
          · exact hI1.defeat A lc.cid _
  · exact h

theorem Inv.mplsRound (hA : LawfulArith A) (hex : A.exact = false) {s : St α} (h : Inv A s) : Inv A (Droop.mplsRound A s).1 := by
  unfold Droop.mplsRound
  split
  · exact h.mplsDefeatMany A hA _ (mplsDefeatSet_hopeful A s) (mplsDefeatSet_nodup A s h.wf)
  · split
    · rename_i hd hs heq
      apply h.mplsElectSurplus A hA hex
      intro w hw
      have : w ∈ (byVote A true s.hopeful).filter (hasQuotaGE A s) := by rw [heq]; exact hw
      rw [List.mem_filter] at this
      exact ⟨(mem_pySorted _ _ _ _).1 this.1, this.2⟩
    · unfold mplsFinish
      split <;> exact h.mplsDefeatLow A hA

theorem Inv.mplsBody (hA : LawfulArith A) (hex : A.exact = false) {s : St α} (h : Inv A s) : Inv A (Droop.mplsBody A s).1 := by
  unfold Droop.mplsBody
  split
  · exact (h.mplsCountVotes A).mplsElectThreshold A
  · exact ((h.mplsCountVotes A).newRound A).mplsRound A hA hex

theorem Inv.mplsEpilogue {s : St α} (h : Inv A s) : Inv A (Droop.mplsEpilogue A s) := by
  unfold Droop.mplsEpilogue
  apply Inv.foldDefeat
  split
  · exact h.foldElectNP A _ _
  · exact h

/-- **Minneapolis: conservation, non-negativity and the tally invariant hold in the final state and in every snapshot of
    the record, for every input (undeclared write-ins included)** -/
theorem mpls_conservation (hA : LawfulArith A) (hex : A.exact = false) (s0 t : St α) (h0 : Init A s0)
    (hq : 0 < A.ofInt (pdiv s0.nballots (s0.seats + 1) + 1)) (h : mplsCount A s0 = some t) :
    Inv A (t.logAct A "end" "Count Complete" []) := by
  unfold mplsCount at h
  cases hl : loopN (fun _ => true) (mplsBody A) (2 * s0.cands.length + 4) (mplsInit A s0) with
  | none => rw [hl] at h; cases h
  | some s4 =>
    rw [hl] at h; cases h
    have h4 : Inv A s4 :=
      loopN_preserves (Inv A) (fun _ => true) (mplsBody A) (fun s hs => hs.mplsBody A hA hex) _ _ _
        (Inv.mplsInit A hA h0 hq) hl
    exact (h4.mplsEpilogue A).logAct A _ _ _

end Droop
