import DroopProofs.RunZero
import DroopProofs.CoalitionScot

/-! # C11: deleting the withdrawn candidates commutes with every step of a count (primitives)

`dropW s` deletes the withdrawn candidates from the candidate list, from the saved round snapshots (`E.rounds`) and from
every snapshot of the record.  Every selector the rules use is blind to withdrawn candidates, every update keeps a withdrawn
candidate withdrawn, and `elect` / `defeat` are only ever addressed to ids of candidates that are not withdrawn — so each
step `f` satisfies `dropW (f s) = f (dropW s)`. -/
namespace Droop
variable {α : Type} [CommRing α] [LinearOrder α] [IsStrictOrderedRing α] (A : Arith α)

def nonW (c : Cand α) : Bool := c.st != .withdrawn
def dropSnap (sn : Snap α) : Snap α := { sn with cs := sn.cs.filter (fun e => e.2.1 != "W") }
def dropAct (a : Act α) : Act α := { a with snap := a.snap.map dropSnap }
def dropW (s : St α) : St α :=
  { s with cands := s.cands.filter nonW, rounds := s.rounds.map (fun l => l.filter nonW), acts := s.acts.map dropAct }

theorem filter_nonW_filter (l : List (Cand α)) (p : Cand α → Bool) (hp : ∀ c, p c = true → nonW c = true) :
    (l.filter nonW).filter p = l.filter p := by
  rw [List.filter_filter]
  apply List.filter_congr
  intro c _
  by_cases h : p c = true
  · simp [h, hp c h]
  · simp [h]

@[simp] theorem hopeful_dropW (s : St α) : (dropW s).hopeful = s.hopeful := by
  unfold St.hopeful dropW
  exact filter_nonW_filter _ _ (fun c h => by
    have : c.st = .hopeful := by simpa using h
    unfold nonW; rw [this]; rfl)

@[simp] theorem elected_dropW (s : St α) : (dropW s).elected = s.elected := by
  unfold St.elected dropW
  exact filter_nonW_filter _ _ (fun c h => by
    have : c.st = .elected := by simpa using h
    unfold nonW; rw [this]; rfl)

@[simp] theorem pendingL_dropW (s : St α) : (dropW s).pendingL = s.pendingL := by
  unfold St.pendingL dropW
  exact filter_nonW_filter _ _ (fun c h => by
    have : c.st = .elected := by
      simp only [Bool.and_eq_true, beq_iff_eq] at h; exact h.1
    unfold nonW; rw [this]; rfl)

@[simp] theorem eligible_dropW (s : St α) : (dropW s).eligible = s.eligible := by
  unfold St.eligible dropW
  exact filter_nonW_filter _ _ (fun c h => h)

@[simp] theorem seatsLeft_dropW (s : St α) : (dropW s).seatsLeft = s.seatsLeft := by
  unfold St.seatsLeft; rw [elected_dropW]; rfl

@[simp] theorem isHopeful_dropW (s : St α) (cid : Nat) : (dropW s).isHopeful cid = s.isHopeful cid := by
  unfold St.isHopeful dropW
  simp only [List.any_filter]
  congr 1
  funext c
  unfold nonW
  cases hs : c.st <;> simp

@[simp] theorem quota_dropW (s : St α) : (dropW s).quota = s.quota := rfl
@[simp] theorem ballots_dropW (s : St α) : (dropW s).ballots = s.ballots := rfl
@[simp] theorem seats_dropW (s : St α) : (dropW s).seats = s.seats := rfl
@[simp] theorem crash_dropW (s : St α) : (dropW s).crash = s.crash := rfl
@[simp] theorem round_dropW (s : St α) : (dropW s).round = s.round := rfl
@[simp] theorem nballots_dropW (s : St α) : (dropW s).nballots = s.nballots := rfl

theorem mkSnap_dropW (s : St α) : (dropW s).mkSnap A = dropSnap (s.mkSnap A) := by
  unfold St.mkSnap dropSnap
  simp only [eligible_dropW]
  congr 1
  simp only [dropW]
  rw [List.filter_map]
  congr 1
  apply List.filter_congr
  intro c _
  simp only [Function.comp, nonW]
  cases hs : c.st <;> simp [Cand.code, hs]
  split <;> simp

theorem dropW_logAct (s : St α) (tag verb : String) (subj : List Nat) :
    dropW (s.logAct A tag verb subj) = (dropW s).logAct A tag verb subj := by
  unfold St.logAct
  by_cases ht : (tag == "round") = true
  · simp only [ht, if_true]
    have hm : (St.mkSnap A (dropW ({ s with rounds := s.rounds ++ [s.cands] } : St α)))
        = dropSnap (St.mkSnap A ({ s with rounds := s.rounds ++ [s.cands] } : St α)) := mkSnap_dropW A _
    unfold dropW at hm ⊢
    simp only [List.map_append, List.map_cons, List.map_nil] at hm ⊢
    simp only [dropAct, Option.map_some]
    rw [← hm]
  · have hf : (tag == "round") = false := by simpa using ht
    simp only [hf, Bool.false_eq_true, if_false]
    have hm := mkSnap_dropW A s
    unfold dropW at hm ⊢
    simp only [List.map_cons]
    simp only [dropAct, Option.map_some]
    rw [← hm]

theorem dropW_logMsg (s : St α) (verb : String) (subj : List Nat) (val : Option α) :
    dropW (s.logMsg verb subj val) = (dropW s).logMsg verb subj val := by
  unfold St.logMsg dropW
  simp only [List.map_cons, dropAct, Option.map_none]

/-- an update that keeps every status commutes with the deletion -/
theorem dropW_upd_keep (s : St α) (cid : Nat) (f : Cand α → Cand α) (hf : ∀ c, (f c).st = c.st) :
    dropW (s.upd cid f) = (dropW s).upd cid f := by
  unfold dropW St.upd
  simp only
  congr 1
  rw [List.filter_map]
  congr 1
  apply List.filter_congr
  intro c _
  simp only [Function.comp, nonW]
  split
  · rw [hf]
  · rfl

/-- an update addressed to an id that no withdrawn candidate carries commutes with the deletion -/
theorem dropW_upd_nonW (s : St α) (cid : Nat) (f : Cand α → Cand α)
    (hf : ∀ c, c.st ≠ .withdrawn → (f c).st ≠ .withdrawn) (hno : ∀ c ∈ s.cands, c.cid = cid → c.st ≠ .withdrawn) :
    dropW (s.upd cid f) = (dropW s).upd cid f := by
  unfold dropW St.upd
  simp only
  congr 1
  rw [List.filter_map]
  congr 1
  apply List.filter_congr
  intro c hc
  simp only [Function.comp, nonW]
  by_cases he : (c.cid == cid) = true
  · have h1 := hno c hc (by simpa using he)
    have h2 := hf c h1
    have e1 : ((f c).st != CState.withdrawn) = true := by simpa using h2
    have e2 : (c.st != CState.withdrawn) = true := by simpa using h1
    simp only [he, if_true, e1, e2]
  · have hne : (c.cid == cid) = false := by simpa using he
    simp only [hne, Bool.false_eq_true, if_false]

/-- `cid` is the id of a candidate who is not withdrawn -/
def NonWId (s : St α) (cid : Nat) : Prop := ∃ x ∈ s.cands, x.cid = cid ∧ x.st ≠ .withdrawn

theorem noW_of_nonWId {s : St α} (hwf : s.WF) {cid : Nat} (h : NonWId s cid) :
    ∀ c ∈ s.cands, c.cid = cid → c.st ≠ .withdrawn := by
  obtain ⟨x, hx, hxc, hxs⟩ := h
  intro c hc hcc
  rw [nodup_cid_eq hwf hc hx (hcc.trans hxc.symm)]; exact hxs

theorem dropW_elect {s : St α} (hwf : s.WF) {cid : Nat} (h : NonWId s cid) (verb : String) (p : Bool) :
    dropW (s.elect A cid verb p) = (dropW s).elect A cid verb p := by
  unfold St.elect
  rw [dropW_logAct]
  congr 1
  exact dropW_upd_nonW s cid (fun c => { c with st := .elected, pending := p }) (fun c _ => by simp) (noW_of_nonWId hwf h)

theorem dropW_defeat {s : St α} (hwf : s.WF) {cid : Nat} (h : NonWId s cid) (verb : String) :
    dropW (s.defeat A cid verb) = (dropW s).defeat A cid verb := by
  unfold St.defeat
  rw [dropW_logAct]
  congr 1
  exact dropW_upd_nonW s cid (fun c => { c with st := .defeated }) (fun c _ => by simp) (noW_of_nonWId hwf h)

theorem dropW_unpendLog (s : St α) (cid : Nat) (verb : String) :
    dropW (s.unpendLog A cid verb) = (dropW s).unpendLog A cid verb := by
  unfold St.unpendLog
  rw [dropW_logAct]
  congr 1
  exact dropW_upd_keep s cid (fun c => { c with pending := false }) (fun _ => rfl)

theorem dropW_unpendSilent (s : St α) (cid : Nat) : dropW (s.unpendSilent cid) = (dropW s).unpendSilent cid := by
  unfold St.unpendSilent; exact dropW_upd_keep s cid (fun c => { c with pending := false }) (fun _ => rfl)

theorem dropW_setVote (s : St α) (cid : Nat) (v : α) : dropW (s.setVote cid v) = (dropW s).setVote cid v := by
  unfold St.setVote; exact dropW_upd_keep s cid (fun c => { c with vote := v }) (fun _ => rfl)

theorem dropW_addVote (s : St α) (cid : Nat) (v : α) : dropW (s.addVote A cid v) = (dropW s).addVote A cid v := by
  unfold St.addVote; exact dropW_upd_keep s cid (fun c => { c with vote := A.add c.vote v }) (fun _ => rfl)

theorem dropW_newRound (s : St α) : dropW (s.newRound A) = (dropW s).newRound A := by
  unfold St.newRound; rw [dropW_logAct]; rfl

theorem dropW_setCrash (s : St α) (k : String) : dropW (s.setCrash k) = (dropW s).setCrash k := by
  unfold St.setCrash
  show dropW (match s.crash with | some _ => s | none => { s with crash := some k }) = _
  cases hc : s.crash with
  | some _ => simp only [crash_dropW, hc]
  | none => simp only [crash_dropW, hc]; rfl

theorem dropW_setQuota (s : St α) (q : α) : dropW (s.setQuota q) = (dropW s).setQuota q := rfl
theorem dropW_setExhausted (s : St α) (e : α) : dropW (s.setExhausted e) = (dropW s).setExhausted e := rfl
theorem dropW_setSurplus (s : St α) (v : α) : dropW (s.setSurplus v) = (dropW s).setSurplus v := rfl

/-! ## status-keeping facts along updates -/

theorem WF_logAct {s : St α} (hwf : s.WF) (tag verb : String) (subj : List Nat) : (s.logAct A tag verb subj).WF := by
  unfold St.WF; rw [logAct_cands]; exact hwf

theorem nonWId_upd {s : St α} {c : Nat} (h : NonWId s c) (cid : Nat) (f : Cand α → Cand α) (hcid : ∀ x, (f x).cid = x.cid)
    (hf : ∀ x, x.st ≠ .withdrawn → (f x).st ≠ .withdrawn) : NonWId (s.upd cid f) c := by
  obtain ⟨x, hx, hxc, hxs⟩ := h
  refine ⟨if x.cid == cid then f x else x, mem_upd.2 ⟨x, hx, rfl⟩, ?_, ?_⟩
  · split
    · exact (hcid x).trans hxc
    · exact hxc
  · split
    · exact hf x hxs
    · exact hxs

theorem nonWId_of_cands {s t : St α} {c : Nat} (h : NonWId s c) (hc : t.cands = s.cands) : NonWId t c := by
  unfold NonWId; rw [hc]; exact h

theorem nonWId_of_hopeful {s : St α} {w : Cand α} (h : w ∈ s.hopeful) : NonWId s w.cid := by
  obtain ⟨h1, h2⟩ := mem_hopeful.1 h
  exact ⟨w, h1, rfl, by rw [h2]; intro e; cases e⟩

theorem nonWId_elect {s : St α} {c : Nat} (h : NonWId s c) (cid : Nat) (verb : String) (p : Bool) :
    NonWId (s.elect A cid verb p) c := by
  unfold St.elect
  exact nonWId_of_cands (nonWId_upd h cid (fun c => { c with st := .elected, pending := p }) (fun _ => rfl) (fun _ _ => by simp))
    (logAct_cands A _ _ _ _)

theorem nonWId_defeat {s : St α} {c : Nat} (h : NonWId s c) (cid : Nat) (verb : String) :
    NonWId (s.defeat A cid verb) c := by
  unfold St.defeat
  exact nonWId_of_cands (nonWId_upd h cid (fun c => { c with st := .defeated }) (fun _ => rfl) (fun _ _ => by simp))
    (logAct_cands A _ _ _ _)

/-! ## transfers, first count, tie-breaks -/

theorem isHopeful_fun_dropW (s : St α) : (fun cid => (dropW s).isHopeful cid) = (fun cid => s.isHopeful cid) := by
  funext cid; exact isHopeful_dropW s cid

theorem transferBallot_dropW (s : St α) (b : Ballot α) :
    transferBallot A (dropW s) b = (dropW (transferBallot A s b).1, (transferBallot A s b).2) := by
  unfold transferBallot
  rw [isHopeful_fun_dropW]
  cases h : (advanceTo (fun cid => s.isHopeful cid) b).top with
  | some c => simp only; rw [dropW_addVote]
  | none => rfl

theorem tstep_dropW (cids : List Nat) (rew : α → α) (a : St α) (l : List (Ballot α)) (b : Ballot α) :
    tstep A cids rew (dropW a, l) b = (dropW (tstep A cids rew (a, l) b).1, (tstep A cids rew (a, l) b).2) := by
  unfold tstep
  cases htop : b.top with
  | none => rfl
  | some c =>
    simp only
    split
    · rw [transferBallot_dropW]
    · rfl

theorem foldl_tstep_dropW (cids : List Nat) (rew : α → α) (bs : List (Ballot α)) (a : St α) (l : List (Ballot α)) :
    bs.foldl (tstep A cids rew) (dropW a, l)
      = (dropW (bs.foldl (tstep A cids rew) (a, l)).1, (bs.foldl (tstep A cids rew) (a, l)).2) := by
  induction bs generalizing a l with
  | nil => rfl
  | cons b bs ih =>
    simp only [List.foldl_cons]
    rw [tstep_dropW, ih]

theorem dropW_transferAll (s : St α) (cids : List Nat) (rew : α → α) :
    dropW (transferAll A s cids rew) = transferAll A (dropW s) cids rew := by
  unfold transferAll
  simp only [ballots_dropW]
  rw [foldl_tstep_dropW]
  rfl

theorem dropW_firstCount (s : St α) : dropW (firstCount A s) = firstCount A (dropW s) := by
  unfold firstCount
  simp only [ballots_dropW]
  generalize s.ballots = bs
  induction bs generalizing s with
  | nil => rfl
  | cons b bs ih =>
    simp only [List.foldl_cons]
    rw [ih]
    congr 1
    cases b.top with
    | none => rfl
    | some c => simp only; rw [dropW_addVote]

theorem dropW_breakTie (s : St α) (tied : List (Cand α)) (verb : String) :
    breakTie A (dropW s) tied verb = (dropW (breakTie A s tied verb).1, (breakTie A s tied verb).2) := by
  unfold breakTie
  match tied with
  | [] => simp only; rw [dropW_setCrash]
  | [c] => rfl
  | c :: d :: r => simp only; rw [dropW_logAct]

theorem dropW_transferSurplus (s : St α) (hc : Cand α) (rew : α → α → α → α) (verb : String) :
    dropW (transferSurplus A s hc rew verb) = transferSurplus A (dropW s) hc rew verb := by
  unfold transferSurplus
  dsimp only
  rw [dropW_logAct, dropW_setVote, dropW_transferAll]
  have hq : (transferAll A s [hc.cid] fun w => rew w (A.sub hc.vote s.quota) hc.vote).quota
      = (transferAll A (dropW s) [hc.cid] fun w => rew w (A.sub hc.vote (dropW s).quota) hc.vote).quota := by
    rw [transferAll_quota, transferAll_quota]; rfl
  rw [hq]
  rfl

theorem dropW_foldSetZero (cids : List Nat) (s : St α) :
    dropW (cids.foldl (fun acc c => acc.setVote c A.zero) s) = cids.foldl (fun acc c => acc.setVote c A.zero) (dropW s) := by
  induction cids generalizing s with
  | nil => rfl
  | cons c cs ih => simp only [List.foldl_cons]; rw [ih, dropW_setVote]

theorem dropW_transferDefeated (s : St α) (cids : List Nat) (verb : String) :
    dropW (transferDefeated A s cids verb) = transferDefeated A (dropW s) cids verb := by
  unfold transferDefeated
  dsimp only
  rw [dropW_logAct, dropW_foldSetZero, dropW_transferAll]

/-- folding `elect` over candidates whose ids are not withdrawn -/
theorem dropW_foldElect (ws : List (Cand α)) (verb : Cand α → String) (pend : Cand α → Bool) {s : St α} (hwf : s.WF)
    (h : ∀ w ∈ ws, NonWId s w.cid) :
    dropW (ws.foldl (fun acc c => acc.elect A c.cid (verb c) (pend c)) s)
      = ws.foldl (fun acc c => acc.elect A c.cid (verb c) (pend c)) (dropW s) := by
  induction ws generalizing s with
  | nil => rfl
  | cons w ws ih =>
    simp only [List.foldl_cons]
    rw [ih (WF_elect A hwf _ _ _) (fun w' hw' => nonWId_elect A (h w' (by simp [hw'])) _ _ _),
      dropW_elect A hwf (h w (by simp))]

theorem dropW_foldDefeat (ws : List (Cand α)) (verb : Cand α → String) {s : St α} (hwf : s.WF)
    (h : ∀ w ∈ ws, NonWId s w.cid) :
    dropW (ws.foldl (fun acc c => acc.defeat A c.cid (verb c)) s)
      = ws.foldl (fun acc c => acc.defeat A c.cid (verb c)) (dropW s) := by
  induction ws generalizing s with
  | nil => rfl
  | cons w ws ih =>
    simp only [List.foldl_cons]
    rw [ih (WF_defeat A hwf _ _) (fun w' hw' => nonWId_defeat A (h w' (by simp [hw'])) _ _),
      dropW_defeat A hwf (h w (by simp))]

theorem dropW_foldUnpend (l : List (Cand α)) (s : St α) :
    dropW (l.foldl (fun acc c => acc.unpendSilent c.cid) s) = l.foldl (fun acc c => acc.unpendSilent c.cid) (dropW s) := by
  induction l generalizing s with
  | nil => rfl
  | cons c cs ih => simp only [List.foldl_cons]; rw [ih, dropW_unpendSilent]

end Droop
