import DroopProofs.Transfer

/-! # REC: the action log is append-only (C19 core; also the lifting pattern for run-level invariants) -/
namespace Droop
variable {α : Type} (A : Arith α)

/-- `s ⊑ t`: everything logged in `s` is still there, in the same order, in `t` (acts are newest-first) -/
def Ext (s t : St α) : Prop := s.acts <:+ t.acts

theorem Ext.refl (s : St α) : Ext s s := List.suffix_refl _
theorem Ext.trans {s t u : St α} (h1 : Ext s t) (h2 : Ext t u) : Ext s u := List.IsSuffix.trans h1 h2
theorem Ext.of_acts_eq {s t : St α} (h : t.acts = s.acts) : Ext s t := by unfold Ext; rw [h]; exact List.suffix_refl _

theorem ext_logAct (s : St α) (tag verb : String) (subj : List Nat) : Ext s (s.logAct A tag verb subj) := by
  unfold Ext St.logAct
  simp only
  split <;> exact List.suffix_cons _ _

@[simp] theorem upd_acts (s : St α) (cid : Nat) (f : Cand α → Cand α) : (s.upd cid f).acts = s.acts := rfl

theorem ext_newRound (s : St α) : Ext s (s.newRound A) := by
  unfold St.newRound
  exact Ext.trans (t := { s with round := s.round + 1 }) (Ext.of_acts_eq rfl) (ext_logAct A _ _ _ _)
theorem ext_elect (s : St α) (cid : Nat) (verb : String) (p : Bool) : Ext s (s.elect A cid verb p) := by
  unfold St.elect; exact Ext.trans (Ext.of_acts_eq (upd_acts s cid _)) (ext_logAct A _ _ _ _)
theorem ext_defeat (s : St α) (cid : Nat) (verb : String) : Ext s (s.defeat A cid verb) := by
  unfold St.defeat; exact Ext.trans (Ext.of_acts_eq (upd_acts s cid _)) (ext_logAct A _ _ _ _)
theorem ext_unpendLog (s : St α) (cid : Nat) (verb : String) : Ext s (s.unpendLog A cid verb) := by
  unfold St.unpendLog; exact Ext.trans (Ext.of_acts_eq (upd_acts s cid _)) (ext_logAct A _ _ _ _)
theorem ext_setVote (s : St α) (cid : Nat) (v : α) : Ext s (s.setVote cid v) := Ext.of_acts_eq rfl
theorem ext_unpendSilent (s : St α) (cid : Nat) : Ext s (s.unpendSilent cid) := Ext.of_acts_eq rfl
theorem ext_setCrash (s : St α) (k : String) : Ext s (s.setCrash k) := by
  unfold St.setCrash; split <;> exact Ext.of_acts_eq rfl

theorem transferBallot_acts (s : St α) (b : Ballot α) : (transferBallot A s b).1.acts = s.acts := by
  unfold transferBallot; split <;> rfl
theorem tstep_acts (cids : List Nat) (rew : α → α) (acc : St α × List (Ballot α)) (b : Ballot α) :
    (tstep A cids rew acc b).1.acts = acc.1.acts := by
  unfold tstep; split
  · split
    · simp [transferBallot_acts]
    · rfl
  · rfl
theorem foldl_tstep_acts (cids : List Nat) (rew : α → α) (bs : List (Ballot α)) (acc : St α × List (Ballot α)) :
    (bs.foldl (tstep A cids rew) acc).1.acts = acc.1.acts := by
  induction bs generalizing acc with
  | nil => rfl
  | cons b bs ih => simp only [List.foldl_cons]; rw [ih, tstep_acts]
theorem ext_transferAll (s : St α) (cids : List Nat) (rew : α → α) : Ext s (transferAll A s cids rew) := by
  apply Ext.of_acts_eq
  have := foldl_tstep_acts A cids rew s.ballots (s, [])
  simpa [transferAll] using this

/-- folding an extending step extends -/
theorem ext_foldl {β : Type} (f : St α → β → St α) (hf : ∀ s x, Ext s (f s x)) (l : List β) (s : St α) :
    Ext s (l.foldl f s) := by
  induction l generalizing s with
  | nil => exact Ext.refl s
  | cons x xs ih => exact Ext.trans (hf s x) (ih _)

/-- the generic fuelled loop extends if its body does -/
theorem ext_loopN (guard : St α → Bool) (body : St α → St α × Flow) (hb : ∀ s, Ext s (body s).1) :
    ∀ (fuel : Nat) (s t : St α), loopN guard body fuel s = some t → Ext s t := by
  intro fuel
  induction fuel with
  | zero => intro s t h; simp [loopN] at h
  | succ n ih =>
    intro s t h
    unfold loopN at h
    by_cases hc : s.crash.isSome = true
    · simp [hc] at h; cases h; exact Ext.refl s
    · by_cases hg : guard s = true
      · simp only [hc, hg, if_true] at h
        have hbs := hb s
        cases hbody : body s with
        | mk s' fl =>
          rw [hbody] at h hbs
          cases fl with
          | cont => exact Ext.trans hbs (ih _ _ h)
          | brk => simp at h; cases h; exact hbs
      · simp [hc, hg] at h; cases h; exact Ext.refl s

/-! ### wigm / wigm-prf: every step only appends -/
theorem ext_breakTie (s : St α) (tied : List (Cand α)) (verb : String) : Ext s (breakTie A s tied verb).1 := by
  unfold breakTie
  split
  · exact ext_setCrash s _
  · exact Ext.refl s
  · exact ext_logAct A _ _ _ _

theorem ext_electWinners (hasQ : St α → Cand α → Bool) (pend : St α → Cand α → Bool)
    (verb : St α → Cand α → String) (s : St α) : Ext s (electWinners A hasQ pend verb s) := by
  unfold electWinners
  exact ext_foldl _ (fun (acc : St α) (c : Cand α) => ext_elect A acc c.cid _ _) _ s

theorem ext_transferSurplus (s : St α) (hc : Cand α) (rew : α → α → α → α) (verb : String) :
    Ext s (transferSurplus A s hc rew verb) := by
  unfold transferSurplus
  dsimp only
  exact Ext.trans (ext_transferAll A s [hc.cid] _) (Ext.trans (ext_setVote _ _ _) (ext_logAct A _ _ _ _))

theorem ext_transferDefeated (s : St α) (cids : List Nat) (verb : String) :
    Ext s (transferDefeated A s cids verb) := by
  unfold transferDefeated
  dsimp only
  refine Ext.trans (ext_transferAll A s cids id) (Ext.trans ?_ (ext_logAct A _ _ _ _))
  exact ext_foldl _ (fun (acc : St α) (c : Nat) => ext_setVote acc c _) _ _

theorem ext_wigmSurplusStep (s : St α) : Ext s (wigmSurplusStep A s) := by
  unfold wigmSurplusStep
  cases hm : maxVoteOf A s.pendingL with
  | none => exact Ext.refl s
  | some hv =>
    simp only
    have hbt := ext_breakTie A s (s.pendingL.filter (fun c => A.eq c.vote hv)) "Break tie (surplus)"
    cases hb : breakTie A s (s.pendingL.filter (fun c => A.eq c.vote hv)) "Break tie (surplus)" with
    | mk s1 oc =>
      rw [hb] at hbt
      cases oc with
      | none => exact hbt
      | some hc => exact Ext.trans hbt (Ext.trans (ext_unpendLog A _ _ _) (ext_transferSurplus A _ _ _ _))

theorem ext_wigmDefeatStep (o : WigmOpts) (s : St α) : Ext s (wigmDefeatStep A o s) := by
  unfold wigmDefeatStep
  cases hm : minVoteOf A s.hopeful with
  | none => exact Ext.refl s
  | some lv =>
    simp only
    split
    · exact Ext.trans (ext_foldl _ (fun (acc : St α) (c : Cand α) => ext_defeat A acc c.cid _) _ _)
        (ext_foldl _ (fun (acc : St α) (c : Cand α) => ext_transferDefeated A acc _ _) _ _)
    · have hbt := ext_breakTie A s (s.hopeful.filter (fun c => A.eq c.vote lv)) "Break tie (defeat)"
      cases hb : breakTie A s (s.hopeful.filter (fun c => A.eq c.vote lv)) "Break tie (defeat)" with
      | mk s1 oc =>
        rw [hb] at hbt
        cases oc with
        | none => exact hbt
        | some lc => exact Ext.trans hbt (Ext.trans (ext_defeat A _ _ _) (ext_transferDefeated A _ _ _))

theorem ext_wigmDefeatSure (s : St α) (sure : List (Cand α)) : Ext s (wigmDefeatSure A s sure) := by
  unfold wigmDefeatSure
  exact ext_foldl _ (fun (acc : St α) (c : Cand α) => ext_defeat A acc c.cid _) _ _

theorem ext_wigmBatchStep (s : St α) (sure : List (Cand α)) : Ext s (wigmBatchStep A s sure).1 := by
  unfold wigmBatchStep
  split
  · exact ext_wigmDefeatSure A s sure
  · exact Ext.trans (ext_wigmDefeatSure A s sure) (ext_transferDefeated A _ _ _)

theorem ext_wigmAfterElect (o : WigmOpts) (s : St α) : Ext s (wigmAfterElect A o s).1 := by
  unfold wigmAfterElect
  split
  · exact ext_wigmBatchStep A s _
  · split
    · exact ext_wigmSurplusStep A s
    · split
      · exact ext_wigmDefeatStep A o s
      · exact Ext.refl s

theorem ext_wigmBody (o : WigmOpts) (s : St α) : Ext s (wigmBody A o s).1 := by
  unfold wigmBody wigmElect
  exact Ext.trans (Ext.trans (ext_newRound A s) (ext_electWinners A _ _ _ _)) (ext_wigmAfterElect A o _)

theorem ext_epilogue (s : St α) : Ext s (epilogueElectOrDefeat A s) := by
  unfold epilogueElectOrDefeat
  dsimp only
  refine Ext.trans (ext_foldl _ (fun (acc : St α) (c : Cand α) => ext_unpendSilent acc c.cid) s.pendingL s) ?_
  apply ext_foldl
  intro acc c
  split
  · exact ext_elect A _ _ _ _
  · exact ext_defeat A _ _ _

theorem firstCount_acts (s : St α) : (firstCount A s).acts = s.acts := by
  unfold firstCount
  have : ∀ (bs : List (Ballot α)) (s : St α), (bs.foldl (fun s b => match b.top with
                          | some c => s.addVote A c (bvote A b)
                          | none => s) s).acts = s.acts := by
    intro bs; induction bs with
    | nil => intro s; rfl
    | cons b bs ih => intro s; simp only [List.foldl_cons]; rw [ih]; split <;> rfl
  exact this _ _

theorem ext_wigmInit (o : WigmOpts) (s0 : St α) : Ext s0 (wigmInit A o s0) := by
  unfold wigmInit
  refine Ext.trans (Ext.of_acts_eq ?_) (ext_logAct A _ _ _ _)
  show (firstCount A (s0.setQuota (wigmQuota A o s0))).acts = s0.acts
  rw [firstCount_acts]; rfl

/-- **wigm / wigm-prf(-batch): whatever had been logged when the count started is a suffix of the final
    (newest-first) log, i.e. the count only ever appends actions (C19: an interrupted count shows a prefix
    of the uninterrupted one).** -/
theorem wigmCount_appendOnly (o : WigmOpts) (s0 t : St α) (h : wigmCount A o s0 = some t) : Ext s0 t := by
  unfold wigmCount at h
  cases hl : loopN stdGuard (wigmBody A o) (2 * s0.cands.length + 3) (wigmInit A o s0) with
  | none => rw [hl] at h; cases h
  | some s4 =>
    rw [hl] at h
    cases h
    exact Ext.trans (ext_wigmInit A o s0)
      (Ext.trans (ext_loopN stdGuard (wigmBody A o) (ext_wigmBody A o) _ _ _ hl) (ext_epilogue A _))

end Droop
