import DroopProofs.InvDefeatMany

/-! # Batch exclusions (wigm-prf-batch sure losers; the shape shared with CfER batches and Minneapolis certain losers):
    defeating a set of hopefuls and then moving their ballots on preserves the bundle -/
namespace Droop
variable {α : Type} [CommRing α] [LinearOrder α] [IsStrictOrderedRing α] (A : Arith α)

theorem defeat_ballots (s : St α) (cid : Nat) (verb : String) : (s.defeat A cid verb).ballots = s.ballots := by
  unfold St.defeat; rw [logAct_ballots]; rfl

theorem foldDefeat_ballots (ws : List (Cand α)) (verb : String) (s : St α) :
    (ws.foldl (fun acc c => acc.defeat A c.cid verb) s).ballots = s.ballots := by
  induction ws generalizing s with
  | nil => rfl
  | cons w ws ih => simp only [List.foldl_cons]; rw [ih, defeat_ballots]

theorem foldDefeat_keeps (ws : List (Cand α)) (verb : String) (s : St α) (c : Cand α) (hc : c ∈ s.cands)
    (hne : ∀ w ∈ ws, c.cid ≠ w.cid) : c ∈ (ws.foldl (fun acc c => acc.defeat A c.cid verb) s).cands := by
  induction ws generalizing s with
  | nil => exact hc
  | cons w ws ih =>
    simp only [List.foldl_cons]
    apply ih
    · unfold St.defeat; rw [logAct_cands]; exact mem_upd_of_ne hc (hne w (by simp))
    · intro w' hw'; exact hne w' (by simp [hw'])

/-- after defeating distinct candidates one after another, each of them is in the state as a defeated candidate with
    everything else unchanged -/
theorem foldDefeat_mem (ws : List (Cand α)) (verb : String) (s : St α)
    (hnd : (ws.map (·.cid)).Nodup) (hw : ∀ w ∈ ws, w ∈ s.cands) :
    ∀ w ∈ ws, ({ w with st := .defeated } : Cand α) ∈ (ws.foldl (fun acc c => acc.defeat A c.cid verb) s).cands := by
  induction ws generalizing s with
  | nil => intro w hw; cases hw
  | cons x xs ih =>
    simp only [List.map_cons, List.nodup_cons, List.mem_map, not_exists, not_and] at hnd
    intro w hwm
    simp only [List.foldl_cons]
    rcases List.mem_cons.1 hwm with rfl | hwx
    · apply foldDefeat_keeps
      · unfold St.defeat; rw [logAct_cands]
        exact mem_upd_of_eq (f := fun c => { c with st := .defeated }) (hw w (by simp)) rfl
      · intro w' hw' e
        exact hnd.1 w' hw' e.symm
    · apply ih _ hnd.2 _ w hwx
      intro w' hw'
      unfold St.defeat; rw [logAct_cands]
      exact mem_upd_of_ne (hw w' (by simp [hw'])) (fun e => hnd.1 w' hw' e)

/-- **defeat a set of hopefuls (in any order), then transfer all their ballots at unchanged value** -/
theorem Inv.defeatManyThenTransfer (hA : LawfulArith A) {s : St α} (h : Inv A s) (ws ws' : List (Cand α))
    (verbD verbT : String) (hperm : ws'.Perm ws) (hnd : (ws.map (·.cid)).Nodup) (hw : ∀ w ∈ ws, w ∈ s.hopeful) :
    Inv A (transferDefeated A (ws'.foldl (fun acc c => acc.defeat A c.cid verbD) s) (ws.map (·.cid)) verbT) := by
  have ht : Inv A (ws'.foldl (fun acc c => acc.defeat A c.cid verbD) s) := h.foldDefeat A ws' verbD
  apply ht.transferDefeatedMany A hA (ws.map (·.cid)) verbT hnd
  intro cid hcid
  obtain ⟨w, hwm, rfl⟩ := List.mem_map.1 hcid
  have hwc := mem_hopeful.1 (hw w hwm)
  have hnd' : (ws'.map (·.cid)).Nodup := (hperm.map _).nodup_iff.2 hnd
  have hmem := foldDefeat_mem A ws' verbD s hnd' (fun w' hw' => (mem_hopeful.1 (hw w' (hperm.subset hw'))).1) w (hperm.symm.subset hwm)
  refine ⟨_, hmem, rfl, ?_, ?_, ?_⟩
  · intro hs; rcases hs with hs | ⟨hs, _⟩ <;> simp at hs
  · simp
  · have e1 : (ws'.foldl (fun acc c => acc.defeat A c.cid verbD) s).tally A w.cid = s.tally A w.cid := by
      unfold St.tally; rw [foldDefeat_ballots]
    show w.vote = _
    rw [e1]
    exact h.i1 w hwc.1 (Or.inl hwc.2)

/-! ## the sure-loser search returns hopefuls, each once -/

theorem groupStep_flatten (surplus : α) (acc : List (List (Cand α)) × List (Cand α) × α) (c : Cand α) :
    (groupStep A surplus acc c).1.flatten ++ (groupStep A surplus acc c).2.1 = acc.1.flatten ++ acc.2.1 ++ [c] := by
  unfold groupStep
  split
  · simp
  · by_cases he : acc.2.1.isEmpty = true
    · have : acc.2.1 = [] := List.isEmpty_iff.1 he
      simp [he, this]
    · simp [he]

theorem sortedGroups_flatten (surplus : α) (l : List (Cand α)) : (sortedGroups A surplus l).flatten = l := by
  unfold sortedGroups
  have key : ∀ (l : List (Cand α)) (acc : List (List (Cand α)) × List (Cand α) × α),
      (l.foldl (groupStep A surplus) acc).1.flatten ++ (l.foldl (groupStep A surplus) acc).2.1 = acc.1.flatten ++ acc.2.1 ++ l := by
    intro l
    induction l with
    | nil => intro acc; simp
    | cons c cs ih =>
      intro acc
      simp only [List.foldl_cons]
      rw [ih, groupStep_flatten]; simp
  have hk := key l ([], [], A.zero)
  simp only [List.flatten_nil, List.nil_append] at hk
  dsimp only
  by_cases he : (l.foldl (groupStep A surplus) ([], [], A.zero)).2.1.isEmpty = true
  · have : (l.foldl (groupStep A surplus) ([], [], A.zero)).2.1 = [] := List.isEmpty_iff.1 he
    simp only [he, if_true]
    rw [this, List.append_nil] at hk; exact hk
  · simp only [he, if_false, Bool.false_eq_true]
    rw [List.flatten_append]; simpa using hk

theorem batchDefeatGroups_sublist (s : St α) (surplus : α) :
    (batchDefeatGroups A s surplus).Sublist (byVote A false s.hopeful) := by
  unfold batchDefeatGroups
  dsimp only
  split
  · rename_i g _
    have h1 : ((sortedGroups A surplus (byVote A false s.hopeful)).take (g + 1)).Sublist
        (sortedGroups A surplus (byVote A false s.hopeful)) := List.take_sublist _ _
    have h2 := h1.flatten
    rw [sortedGroups_flatten] at h2
    exact h2
  · exact List.nil_sublist _

theorem batchDefeatGroups_hopeful (s : St α) (surplus : α) :
    ∀ w ∈ batchDefeatGroups A s surplus, w ∈ s.hopeful := by
  intro w hw
  have := (batchDefeatGroups_sublist A s surplus).subset hw
  exact (mem_pySorted _ _ _ _).1 this

theorem batchDefeatGroups_nodup (s : St α) (hwf : s.WF) (surplus : α) :
    ((batchDefeatGroups A s surplus).map (·.cid)).Nodup := by
  have h1 : ((batchDefeatGroups A s surplus).map (·.cid)).Sublist ((byVote A false s.hopeful).map (·.cid)) :=
    (batchDefeatGroups_sublist A s surplus).map _
  apply List.Nodup.sublist h1
  have hp : ((byVote A false s.hopeful).map (·.cid)).Perm (s.hopeful.map (·.cid)) := (pySorted_perm _ _ _).map _
  exact hp.nodup_iff.2 (hopeful_cids_nodup hwf)

/-- the batch step of wigm-prf-batch preserves the bundle -/
theorem Inv.wigmBatchStep (hA : LawfulArith A) {s : St α} (h : Inv A s) (sure : List (Cand α))
    (hsub : ∀ w ∈ sure, w ∈ s.hopeful) (hnd : (sure.map (·.cid)).Nodup) :
    Inv A (Droop.wigmBatchStep A s sure).1 := by
  unfold Droop.wigmBatchStep
  split
  · unfold wigmDefeatSure; exact h.foldDefeat A _ _
  · unfold wigmDefeatSure
    exact h.defeatManyThenTransfer A hA sure (byBallotOrder sure) _ _ (pySorted_perm _ _ _) hnd hsub

/-- the part of a round after the election step, batch variant included -/
theorem Inv.wigmAfterElect' (hA : LawfulArith A) (o : WigmOpts) (hz : o.batchZero = false) {s : St α} (h : Inv A s) :
    Inv A (Droop.wigmAfterElect A o s).1 := by
  unfold Droop.wigmAfterElect
  split
  · apply h.wigmBatchStep A hA
    · intro w hw
      unfold wigmSure at hw
      split at hw
      · exact batchDefeatGroups_hopeful A s _ w hw
      · cases hw
    · unfold wigmSure
      split
      · exact batchDefeatGroups_nodup A s h.wf _
      · simp
  · split
    · exact h.wigmSurplusStep A hA
    · split
      · exact h.wigmDefeatStep1 A hA o hz
      · exact h

theorem Inv.wigmBody' (hA : LawfulArith A) (o : WigmOpts) (hz : o.batchZero = false) (hex : o.prf = true → A.exact = false)
    {s : St α} (h : Inv A s) : Inv A (Droop.wigmBody A o s).1 := by
  unfold Droop.wigmBody
  exact ((h.newRound A).wigmElect A hA o hex).wigmAfterElect' A hA o hz

/-- **Run-level invariant for wigm, wigm-prf and wigm-prf-batch** (every configuration except `defeat_batch=zero`) -/
theorem wigmCount_inv' (hA : LawfulArith A) (o : WigmOpts) (hz : o.batchZero = false) (hex : o.prf = true → A.exact = false)
    (s0 t : St α) (hinit : Inv A (wigmInit A o s0)) (h : wigmCount A o s0 = some t) : Inv A t := by
  unfold wigmCount at h
  cases hl : loopN stdGuard (wigmBody A o) (2 * s0.cands.length + 3) (wigmInit A o s0) with
  | none => rw [hl] at h; cases h
  | some s4 =>
    rw [hl] at h; cases h
    have h4 : Inv A s4 :=
      loopN_preserves (Inv A) stdGuard (wigmBody A o) (fun s hs => hs.wigmBody' A hA o hz hex) _ _ _ hinit hl
    exact h4.epilogue A

/-- conservation, non-negativity and the tally invariant for **wigm-prf-batch** too -/
theorem wigm_conservation' (hA : LawfulArith A) (o : WigmOpts) (hz : o.batchZero = false) (hex : o.prf = true → A.exact = false)
    (s0 t : St α) (h0 : Init A s0) (hq : 0 < wigmQuota A o s0) (h : wigmCount A o s0 = some t) :
    Inv A (t.logAct A "end" "Count Complete" []) :=
  (wigmCount_inv' A hA o hz hex s0 t (Inv.wigmInit A hA o h0 hq) h).logAct A _ _ _

end Droop
