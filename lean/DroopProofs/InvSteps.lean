import DroopProofs.InvTransfer2

/-! # Surplus transfer and transfer of defeated candidates preserve the whole bundle (incl. conservation) -/
namespace Droop
variable {α : Type} [CommRing α] [LinearOrder α] [IsStrictOrderedRing α] (A : Arith α)

theorem sum_votes_set (l : List (Cand α)) (cid : Nat) (v : α) (x : Cand α)
    (hnd : (l.map (·.cid)).Nodup) (hx : x ∈ l) (hxc : x.cid = cid) :
    ((l.map (fun c => if c.cid == cid then { c with vote := v } else c)).map (·.vote)).sum
      = (l.map (·.vote)).sum - x.vote + v := by
  induction l with
  | nil => simp at hx
  | cons y ys ih =>
    simp only [List.map_cons, List.sum_cons]
    simp only [List.map_cons, List.nodup_cons, List.mem_map, not_exists, not_and] at hnd
    rcases List.mem_cons.mp hx with rfl | hx'
    · have hrest : ys.map (fun c => if c.cid == cid then { c with vote := v } else c) = ys := by
        have : ys.map (fun c => if c.cid == cid then { c with vote := v } else c) = ys.map id := by
          apply List.map_congr_left
          intro c hc
          have : c.cid ≠ cid := by rw [← hxc]; exact fun e => hnd.1 c hc e
          simp [this]
        simpa using this
      rw [hrest]; simp [hxc]; ring
    · have hy : y.cid ≠ cid := by
        rw [← hxc]; exact fun e => hnd.1 x hx' e.symm
      rw [ih hnd.2 hx']; simp [hy]; ring

theorem sumVotes_setVote (s : St α) (cid : Nat) (v : α) (x : Cand α) (hwf : s.WF) (hx : x ∈ s.cands) (hxc : x.cid = cid) :
    (s.setVote cid v).sumVotes = s.sumVotes - x.vote + v := by
  unfold St.sumVotes St.setVote St.upd
  exact sum_votes_set s.cands cid v x hwf hx hxc

theorem isHopeful_false_of (s : St α) (hwf : s.WF) (x : Cand α) (hx : x ∈ s.cands) (hst : x.st ≠ .hopeful) :
    s.isHopeful x.cid = false := by
  unfold St.isHopeful
  rw [Bool.eq_false_iff]
  intro h
  rw [List.any_eq_true] at h
  obtain ⟨c, hc, hcc⟩ := h
  simp only [Bool.and_eq_true, beq_iff_eq] at hcc
  have : c = x := nodup_cid_eq hwf hc hx hcc.1
  rw [this] at hcc; exact hst hcc.2

/-- setting the vote of a candidate that is *not in scope* to a non-negative value -/
theorem InvNoCons.setVote {s : St α} (h : InvNoCons A s) (cid : Nat) (v : α) (hv : 0 ≤ v)
    (hns : ∀ c ∈ s.cands, c.cid = cid → ¬ c.inScope) : InvNoCons A (s.setVote cid v) := by
  have hskel : (s.setVote cid v).skel = s.skel := setVote_skel s cid v
  exact
    { meth := h.meth
      recOK := h.recOK
      wf := WF_of_skel hskel.symm h.wf
      bwf := by
        intro b hb c hc
        rw [cand?_isSome_of_skel hskel]; exact h.bwf b hb c hc
      wpos := h.wpos
      vpos := by
        intro c' hc'
        obtain ⟨c, hc, rfl⟩ := mem_upd.1 hc'
        split
        · exact hv
        · exact h.vpos c hc
      epos := h.epos
      qpos := h.qpos
      i1 := by
        intro c' hc' hs
        obtain ⟨c, hc, rfl⟩ := mem_upd.1 hc'
        by_cases hcid : (c.cid == cid) = true
        · exfalso
          simp only [hcid, if_true] at hs
          exact hns c hc (by simpa using hcid) hs
        · simp only [hcid] at hs ⊢
          exact h.i1 c hc hs
      pq := by
        intro c' hc' h1 h2
        obtain ⟨c, hc, rfl⟩ := mem_upd.1 hc'
        by_cases hcid : (c.cid == cid) = true
        · exfalso
          simp only [hcid, if_true] at h1 h2
          exact hns c hc (by simpa using hcid) (Or.inr ⟨h1, h2⟩)
        · simp only [hcid] at h1 h2 ⊢
          exact h.pq c hc h1 h2 }

theorem tally_explicit (hA : LawfulArith A) (s : St α) (d : Nat) :
    s.tally A d = (s.ballots.map (fun b => if b.top = some d then b.w * ((b.mult : Int) : α) else 0)).sum := by
  unfold St.tally
  congr 1
  apply List.map_congr_left
  intro b _
  split
  · exact bvote_eq A hA b
  · rfl

/-- **surplus transfer**: the elected candidate `x` (no longer pending) holds `x.vote = tally ≥ quota`;
    its ballots are re-weighted by `(w * surplus) / vote`, moved on, and its vote set to the quota. -/
def surplusCore (s : St α) (hc : Cand α) (rew : α → α → α → α) : St α :=
  (transferAll A s [hc.cid] (fun w => rew w (A.sub hc.vote s.quota) hc.vote)).setVote hc.cid
    (transferAll A s [hc.cid] (fun w => rew w (A.sub hc.vote s.quota) hc.vote)).quota

theorem transferSurplus_eq (s : St α) (hc : Cand α) (rew : α → α → α → α) (verb : String) :
    transferSurplus A s hc rew verb = (surplusCore A s hc rew).logAct A "transfer" verb [hc.cid] := rfl

/-- the state of a surplus transfer just before it is logged -/
theorem Inv.surplusCore (hA : LawfulArith A) (rew0 : α → α → α → α) (hrew0 : RewLaw rew0) {s : St α} (h : Inv A s)
    (x : Cand α)
    (hx : x ∈ s.cands) (hns : ¬ x.inScope) (hnh : x.st ≠ .hopeful)
    (hI : x.vote = s.tally A x.cid) (hq : s.quota ≤ x.vote) :
    Inv A (Droop.surplusCore A s x rew0) := by
  unfold Droop.surplusCore
  simp only [hA.sub_eq]
  have hv : 0 < x.vote := lt_of_lt_of_le h.qpos hq
  have hsur : 0 ≤ x.vote - s.quota := sub_nonneg.2 hq
  set rew : α → α := fun w => rew0 w (x.vote - s.quota) x.vote with hrew
  have hr : ∀ b ∈ s.ballots, 0 ≤ rew b.w := fun b hb => (hrew0 b.w _ _ (h.wpos b hb) hsur hv).1
  have hscope : ∀ c ∈ s.cands, c.inScope → c.cid ∉ [x.cid] := by
    intro c hc hs hmem
    have : c.cid = x.cid := by simpa using hmem
    have : c = x := nodup_cid_eq h.wf hc hx this
    rw [this] at hs; exact hns hs
  have hnc := h.transferAll_noCons A hA [x.cid] rew hscope hr
  have hskel := transferAll_skel A s [x.cid] rew
  -- x's counterpart after the transfer has the same vote (nothing arrives at a non-hopeful candidate)
  have hx'ex : ∃ x' ∈ (transferAll A s [x.cid] rew).cands, x'.skel = x.skel := by
    have : x.skel ∈ s.skel := List.mem_map.2 ⟨x, hx, rfl⟩
    rw [← hskel] at this
    obtain ⟨x', hx', hsk⟩ := List.mem_map.1 this
    exact ⟨x', hx', hsk⟩
  obtain ⟨x', hx'm, hx'sk⟩ := hx'ex
  have hx'cid : x'.cid = x.cid := skel_cid hx'sk
  have hx'vote : x'.vote = x.vote := by
    have h1 := voteOf_of_mem hnc.wf hx'm
    have h2 := voteOf_of_mem h.wf hx
    have h3 := transferAll_voteOf A (lawfulAdd_of hA) s h.bwf [x.cid] rew x.cid
    have hz : (s.ballots.map (contrib A s [x.cid] rew x.cid)).sum = 0 := by
      have : s.ballots.map (contrib A s [x.cid] rew x.cid) = s.ballots.map (fun _ => (0 : α)) := by
        apply List.map_congr_left
        intro b _
        exact contrib_eq_zero_of_not_hopeful A s [x.cid] rew x.cid b (isHopeful_false_of s h.wf x hx hnh)
      rw [this]; simp
    rw [hz, add_zero, h2] at h3
    rw [← h1, hx'cid]; exact h3
  have hns' : ∀ c ∈ (transferAll A s [x.cid] rew).cands, c.cid = x.cid → ¬ c.inScope := by
    intro c hc hcid
    have : c = x' := nodup_cid_eq hnc.wf hc hx'm (hcid.trans hx'cid.symm)
    rw [this]
    have hst := skel_st hx'sk
    unfold Cand.inScope; rw [hst.1, hst.2]; exact hns
  have hq' : (transferAll A s [x.cid] rew).quota = s.quota := transferAll_quota A s _ _
  have hfinal := hnc.setVote A x.cid (transferAll A s [x.cid] rew).quota (by rw [hq']; exact le_of_lt h.qpos) hns'
  -- conservation
  have htot := transferAll_total A hA s h.wf h.bwf [x.cid] rew
  have hmoved := surplus_moved_le A hA rew0 hrew0 s x.cid (x.vote - s.quota) x.vote hsur hv h.wpos
    (by rw [← tally_explicit A hA]; exact hI.symm)
  have hsv := sumVotes_setVote (transferAll A s [x.cid] rew) x.cid (transferAll A s [x.cid] rew).quota x' hnc.wf hx'm hx'cid
  exact
    { meth := hfinal.meth, recOK := hfinal.recOK,
      wf := hfinal.wf, bwf := hfinal.bwf, wpos := hfinal.wpos, vpos := hfinal.vpos, epos := hfinal.epos,
      qpos := hfinal.qpos, i1 := hfinal.i1, pq := hfinal.pq
      cons := by
        have hnb : ((transferAll A s [x.cid] rew).setVote x.cid (transferAll A s [x.cid] rew).quota).nballots = s.nballots :=
          transferAll_nballots A s _ _
        rw [hnb]
        have hex : ((transferAll A s [x.cid] rew).setVote x.cid (transferAll A s [x.cid] rew).quota).exhausted
            = (transferAll A s [x.cid] rew).exhausted := rfl
        unfold St.total at htot ⊢
        rw [hex, hsv, hx'vote, hq']
        have hc := h.cons
        unfold St.total at hc
        have hm : (s.ballots.map (movedVal A s [x.cid] rew)).sum ≤ x.vote - s.quota := hmoved
        linarith }

theorem Inv.transferSurplus (hA : LawfulArith A) (rew0 : α → α → α → α) (hrew0 : RewLaw rew0) {s : St α} (h : Inv A s)
    (x : Cand α) (verb : String)
    (hx : x ∈ s.cands) (hns : ¬ x.inScope) (hnh : x.st ≠ .hopeful)
    (hI : x.vote = s.tally A x.cid) (hq : s.quota ≤ x.vote) :
    Inv A (Droop.transferSurplus A s x rew0 verb) := by
  rw [transferSurplus_eq]
  exact (h.surplusCore A hA rew0 hrew0 x hx hns hnh hI hq).logAct A _ _ _

end Droop
