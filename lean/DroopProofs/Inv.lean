import DroopProofs.Surplus
import Mathlib.Tactic.Linarith

/-! # The Gregory invariant bundle and its preservation by the status primitives -/
namespace Droop
variable {α : Type} [CommRing α] [LinearOrder α] [IsStrictOrderedRing α] (A : Arith α)

def Cand.inScope (c : Cand α) : Prop := c.st = .hopeful ∨ (c.st = .elected ∧ c.pending = true)

/-- what the record shows in one snapshot: tallies of non-withdrawn candidates plus the non-transferable total
    never exceed the number of ballots, and nothing is negative (C02, upper half) -/
def SnapOK (nb : Nat) (sn : Snap α) : Prop :=
  ((sn.cs.filter (fun e => e.2.1 != "W")).map (fun e => e.2.2.1)).sum + sn.x1 ≤ ((nb : Int) : α) * A.one
  ∧ (∀ e ∈ sn.cs, 0 ≤ e.2.2.1) ∧ 0 ≤ sn.x1

/-- every snapshot logged so far is fine -/
def RecOK (s : St α) : Prop := ∀ a ∈ s.acts, ∀ sn, a.snap = some sn → SnapOK A s.nballots sn

structure Inv (s : St α) : Prop where
  meth : s.method = .wigm
  recOK : RecOK A s
  wf   : s.WF
  bwf  : BallotsWF s
  wpos : ∀ b ∈ s.ballots, 0 ≤ b.w
  vpos : ∀ c ∈ s.cands, 0 ≤ c.vote
  epos : 0 ≤ s.exhausted
  qpos : 0 < s.quota
  i1   : ∀ c ∈ s.cands, c.inScope → c.vote = s.tally A c.cid
  pq   : ∀ c ∈ s.cands, c.st = .elected → c.pending = true → s.quota ≤ c.vote
  cons : s.total ≤ ((s.nballots : Int) : α) * A.one

/-- fields the invariant reads -/
theorem Inv.of_same {s t : St α} (h : Inv A s) (hc : t.cands = s.cands) (hb : t.ballots = s.ballots)
    (he : t.exhausted = s.exhausted) (hq : t.quota = s.quota) (hn : t.nballots = s.nballots)
    (hm : t.method = s.method) (ha : t.acts = s.acts) : Inv A t := by
  have htally : ∀ d, t.tally A d = s.tally A d := by intro d; unfold St.tally; rw [hb]
  have hcand : ∀ cid, t.cand? cid = s.cand? cid := by intro cid; unfold St.cand?; rw [hc]
  exact
    { meth := by rw [hm]; exact h.meth
      recOK := by unfold RecOK; rw [ha, hn]; exact h.recOK
      wf := by unfold St.WF; rw [hc]; exact h.wf
      bwf := by
        intro b hb' cid hcid
        rw [hcand]; exact h.bwf b (hb ▸ hb') cid hcid
      wpos := by intro b hb'; exact h.wpos b (hb ▸ hb')
      vpos := by intro c hc'; exact h.vpos c (hc ▸ hc')
      epos := by rw [he]; exact h.epos
      qpos := by rw [hq]; exact h.qpos
      i1 := by intro c hc' hs; rw [htally]; exact h.i1 c (hc ▸ hc') hs
      pq := by intro c hc' h1 h2; rw [hq]; exact h.pq c (hc ▸ hc') h1 h2
      cons := by
        have : t.total = s.total := by unfold St.total St.sumVotes; rw [hc, he]
        rw [this, hn]; exact h.cons }

theorem sum_filter_le {β : Type} (l : List β) (p : β → Bool) (f : β → α) (hf : ∀ x ∈ l, 0 ≤ f x) :
    ((l.filter p).map f).sum ≤ (l.map f).sum := by
  induction l with
  | nil => simp
  | cons x xs ih =>
    have ih' := ih (fun y hy => hf y (by simp [hy]))
    have hx := hf x (by simp)
    simp only [List.filter_cons, List.map_cons, List.sum_cons]
    split
    · simp only [List.map_cons, List.sum_cons]; linarith
    · linarith

/-- the snapshot taken of a state that satisfies the bundle is fine -/
theorem Inv.snapOK {s : St α} (h : Inv A s) : SnapOK A s.nballots (s.mkSnap A) := by
  unfold SnapOK St.mkSnap
  have hx1 : (if s.method == .meek then s.residual else s.exhausted) = s.exhausted := by
    rw [h.meth]; rfl
  simp only [hx1]
  refine ⟨?_, ?_, h.epos⟩
  · have hc := h.cons
    unfold St.total St.sumVotes at hc
    have hle : (((s.cands.map (fun c => (c.cid, c.code s.method, c.vote, c.kf, c.quotient))).filter
          (fun e => e.2.1 != "W")).map (fun e => e.2.2.1)).sum
        ≤ ((s.cands.map (fun c => (c.cid, c.code s.method, c.vote, c.kf, c.quotient))).map (fun e => e.2.2.1)).sum := by
      apply sum_filter_le
      intro e he
      obtain ⟨c, hc', rfl⟩ := List.mem_map.1 he
      exact h.vpos c hc'
    have heq : ((s.cands.map (fun c => (c.cid, c.code s.method, c.vote, c.kf, c.quotient))).map (fun e => e.2.2.1))
        = s.cands.map (·.vote) := by simp [List.map_map, Function.comp]
    rw [heq] at hle
    linarith
  · intro e he
    obtain ⟨c, hc', rfl⟩ := List.mem_map.1 he
    exact h.vpos c hc'

theorem Inv.logAct {s : St α} (h : Inv A s) (tag verb : String) (subj : List Nat) :
    Inv A (s.logAct A tag verb subj) := by
  have hfr : (s.logAct A tag verb subj).cands = s.cands ∧ (s.logAct A tag verb subj).ballots = s.ballots
      ∧ (s.logAct A tag verb subj).exhausted = s.exhausted ∧ (s.logAct A tag verb subj).quota = s.quota
      ∧ (s.logAct A tag verb subj).nballots = s.nballots ∧ (s.logAct A tag verb subj).method = s.method := by
    unfold St.logAct; simp only; split <;> exact ⟨rfl, rfl, rfl, rfl, rfl, rfl⟩
  obtain ⟨e1, e2, e3, e4, e5, e6⟩ := hfr
  -- all fields except recOK come from the unchanged state
  have hbase : Inv A { s with acts := s.acts } := h
  have hsnap := h.snapOK A
  have hacts : ∀ a ∈ (s.logAct A tag verb subj).acts, ∀ sn, a.snap = some sn → SnapOK A s.nballots sn := by
    intro a ha sn hsn
    unfold St.logAct at ha
    simp only at ha
    split at ha
    · -- tag = round: rounds field changed, snapshot is of the same candidates
      rcases List.mem_cons.mp ha with rfl | ha'
      · simp only at hsn
        have : sn = St.mkSnap A { s with rounds := s.rounds ++ [s.cands] } := (Option.some.inj hsn).symm
        rw [this]; exact hsnap
      · exact h.recOK a ha' sn hsn
    · rcases List.mem_cons.mp ha with rfl | ha'
      · simp only at hsn
        have : sn = St.mkSnap A s := (Option.some.inj hsn).symm
        rw [this]; exact hsnap
      · exact h.recOK a ha' sn hsn
  have htally : ∀ d, (s.logAct A tag verb subj).tally A d = s.tally A d := by
    intro d; unfold St.tally; rw [e2]
  have hcand : ∀ cid, (s.logAct A tag verb subj).cand? cid = s.cand? cid := by
    intro cid; unfold St.cand?; rw [e1]
  exact
    { meth := by rw [e6]; exact h.meth
      recOK := by unfold RecOK; rw [e5]; exact hacts
      wf := by unfold St.WF; rw [e1]; exact h.wf
      bwf := by intro b hb' cid hcid; rw [hcand]; exact h.bwf b (e2 ▸ hb') cid hcid
      wpos := by intro b hb'; exact h.wpos b (e2 ▸ hb')
      vpos := by intro c hc'; exact h.vpos c (e1 ▸ hc')
      epos := by rw [e3]; exact h.epos
      qpos := by rw [e4]; exact h.qpos
      i1 := by intro c hc' hs; rw [htally]; exact h.i1 c (e1 ▸ hc') hs
      pq := by intro c hc' h1 h2; rw [e4]; exact h.pq c (e1 ▸ hc') h1 h2
      cons := by
        have : (s.logAct A tag verb subj).total = s.total := by unfold St.total St.sumVotes; rw [e1, e3]
        rw [this, e5]; exact h.cons }

theorem Inv.newRound {s : St α} (h : Inv A s) : Inv A (s.newRound A) := by
  unfold St.newRound
  exact (h.of_same A (t := { s with round := s.round + 1 }) rfl rfl rfl rfl rfl rfl rfl).logAct A _ _ _

theorem Inv.setCrash {s : St α} (h : Inv A s) (k : String) : Inv A (s.setCrash k) := by
  unfold St.setCrash; split
  · exact h
  · exact h.of_same A rfl rfl rfl rfl rfl rfl rfl

/-! ### status-only updates -/

/-- an update that changes only `st`/`pending` -/
def statusOnly (f : Cand α → Cand α) : Prop :=
  ∀ c, (f c).cid = c.cid ∧ (f c).vote = c.vote

theorem mem_upd {s : St α} {cid : Nat} {f : Cand α → Cand α} {c' : Cand α} :
    c' ∈ (s.upd cid f).cands ↔ ∃ c ∈ s.cands, c' = if c.cid == cid then f c else c := by
  unfold St.upd; simp only [List.mem_map]
  constructor
  · rintro ⟨c, hc, rfl⟩; exact ⟨c, hc, rfl⟩
  · rintro ⟨c, hc, rfl⟩; exact ⟨c, hc, rfl⟩

theorem upd_status_cids (s : St α) (cid : Nat) (f : Cand α → Cand α) (hf : statusOnly f) :
    (s.upd cid f).cands.map (·.cid) = s.cands.map (·.cid) := by
  unfold St.upd; simp only [List.map_map]
  apply List.map_congr_left; intro c _
  simp only [Function.comp]; split
  · exact (hf c).1
  · rfl

theorem upd_status_votes (s : St α) (cid : Nat) (f : Cand α → Cand α) (hf : statusOnly f) :
    (s.upd cid f).cands.map (·.vote) = s.cands.map (·.vote) := by
  unfold St.upd; simp only [List.map_map]
  apply List.map_congr_left; intro c _
  simp only [Function.comp]; split
  · exact (hf c).2
  · rfl

theorem cand?_isSome_upd (s : St α) (cid d : Nat) (f : Cand α → Cand α) (hf : statusOnly f) :
    ((s.upd cid f).cand? d).isSome = (s.cand? d).isSome := by
  rw [cand?_upd s cid d f (fun c => (hf c).1)]; simp

/-- a status-only update preserves the invariant provided the scope/pending obligations of the changed
    candidate are met -/
theorem Inv.upd_status {s : St α} (h : Inv A s) (cid : Nat) (f : Cand α → Cand α) (hf : statusOnly f)
    (hscope : ∀ c ∈ s.cands, c.cid = cid → (f c).inScope → c.inScope)
    (hpq : ∀ c ∈ s.cands, c.cid = cid → (f c).st = .elected → (f c).pending = true → s.quota ≤ c.vote) :
    Inv A (s.upd cid f) := by
  have hb : (s.upd cid f).ballots = s.ballots := rfl
  have htally : ∀ d, (s.upd cid f).tally A d = s.tally A d := fun d => rfl
  exact
    { meth := h.meth
      recOK := h.recOK
      wf := by unfold St.WF; rw [upd_status_cids s cid f hf]; exact h.wf
      bwf := by
        intro b hb' c hc
        rw [cand?_isSome_upd s cid c f hf]; exact h.bwf b hb' c hc
      wpos := h.wpos
      vpos := by
        intro c' hc'
        obtain ⟨c, hc, rfl⟩ := mem_upd.1 hc'
        split
        · rw [(hf c).2]; exact h.vpos c hc
        · exact h.vpos c hc
      epos := h.epos
      qpos := h.qpos
      i1 := by
        intro c' hc' hs
        obtain ⟨c, hc, rfl⟩ := mem_upd.1 hc'
        rw [htally]
        by_cases hcid : (c.cid == cid) = true
        · simp only [hcid, if_true] at hs ⊢
          rw [(hf c).2, (hf c).1]
          exact h.i1 c hc (hscope c hc (by simpa using hcid) hs)
        · simp only [hcid] at hs ⊢
          exact h.i1 c hc hs
      pq := by
        intro c' hc' h1 h2
        obtain ⟨c, hc, rfl⟩ := mem_upd.1 hc'
        by_cases hcid : (c.cid == cid) = true
        · simp only [hcid, if_true] at h1 h2 ⊢
          rw [(hf c).2]
          exact hpq c hc (by simpa using hcid) h1 h2
        · simp only [hcid] at h1 h2 ⊢
          exact h.pq c hc h1 h2
      cons := by
        have : (s.upd cid f).total = s.total := by
          unfold St.total St.sumVotes; rw [upd_status_votes s cid f hf]; rfl
        rw [this]; exact h.cons }

/-- electing (with transfer pending) a hopeful candidate that holds a quota -/
theorem Inv.elect {s : St α} (h : Inv A s) (cid : Nat) (verb : String) (p : Bool)
    (hhop : ∀ c ∈ s.cands, c.cid = cid → c.st = .hopeful)
    (hq : ∀ c ∈ s.cands, c.cid = cid → p = true → s.quota ≤ c.vote) :
    Inv A (s.elect A cid verb p) := by
  unfold St.elect
  apply Inv.logAct
  refine Inv.upd_status A h cid _ ?_ ?_ ?_
  · intro c; exact ⟨rfl, rfl⟩
  · intro c hc hcid _; exact Or.inl (hhop c hc hcid)
  · intro c hc hcid _ hp; exact hq c hc hcid hp

theorem Inv.defeat {s : St α} (h : Inv A s) (cid : Nat) (verb : String) : Inv A (s.defeat A cid verb) := by
  unfold St.defeat
  apply Inv.logAct
  refine Inv.upd_status A h cid _ ?_ ?_ ?_
  · intro c; exact ⟨rfl, rfl⟩
  · intro c _ _ hs
    rcases hs with hs | ⟨hs, _⟩ <;> simp at hs
  · intro c _ _ h1 _; simp at h1

theorem Inv.unpendLog {s : St α} (h : Inv A s) (cid : Nat) (verb : String) : Inv A (s.unpendLog A cid verb) := by
  unfold St.unpendLog
  apply Inv.logAct
  refine Inv.upd_status A h cid _ ?_ ?_ ?_
  · intro c; exact ⟨rfl, rfl⟩
  · intro c _ _ hs
    rcases hs with hs | ⟨hs, hp⟩
    · exact Or.inl hs
    · simp at hp
  · intro c _ _ _ hp; simp at hp

theorem Inv.unpendSilent {s : St α} (h : Inv A s) (cid : Nat) : Inv A (s.unpendSilent cid) := by
  unfold St.unpendSilent
  refine Inv.upd_status A h cid _ ?_ ?_ ?_
  · intro c; exact ⟨rfl, rfl⟩
  · intro c _ _ hs
    rcases hs with hs | ⟨hs, hp⟩
    · exact Or.inl hs
    · simp at hp
  · intro c _ _ _ hp; simp at hp

end Droop
