import DroopModel.Values
import Mathlib.Data.Rat.Floor
import Mathlib.Tactic.Linarith
import Mathlib.Tactic.Ring
import Mathlib.Tactic.FieldSimp
import Mathlib.Tactic.Positivity

/-! # Python floor division is the floor of the exact quotient (all signs) -/
namespace Droop

theorem pow10_pos (n : Nat) : 0 < pow10 n := by unfold pow10; positivity

theorem fmod_bounds_pos (a : Int) {b : Int} (hb : 0 < b) : 0 ≤ a.fmod b ∧ a.fmod b < b :=
  ⟨Int.fmod_nonneg_of_pos a hb, Int.fmod_lt_of_pos a hb⟩

theorem fmod_bounds_neg (a : Int) {b : Int} (hb : b < 0) : b < a.fmod b ∧ a.fmod b ≤ 0 := by
  have h := Int.fmod_def a b
  rw [Int.fdiv_eq_ediv] at h
  have hb0 : b ≠ 0 := ne_of_lt hb
  have h1 := Int.emod_nonneg a hb0
  have h2 : a % b < -b := by
    have := Int.emod_lt_of_pos a (show 0 < -b by omega)
    simpa [Int.emod_neg] using this
  have hdiv := Int.emod_add_mul_ediv a b
  by_cases hd : b ∣ a
  · have hz : a % b = 0 := Int.emod_eq_zero_of_dvd hd
    simp [hd] at h
    constructor <;> nlinarith
  · have hnz : a % b ≠ 0 := fun hz => hd (Int.dvd_of_emod_eq_zero hz)
    have hnn : ¬ (0 ≤ b) := by omega
    simp [hd, hnn] at h
    have hpos : 0 < a % b := lt_of_le_of_ne h1 (Ne.symm hnz)
    constructor <;> nlinarith

/-- `a // b = ⌊a / b⌋` for every non-zero `b` -/
theorem pdiv_eq_floor (a b : Int) (hb : b ≠ 0) : pdiv a b = ⌊(a : ℚ) / (b : ℚ)⌋ := by
  symm
  rw [Int.floor_eq_iff]
  unfold pdiv
  have hdef := Int.mul_fdiv_add_fmod a b
  rcases lt_or_gt_of_ne hb with hneg | hpos
  · have hq : (b : ℚ) < 0 := by exact_mod_cast hneg
    obtain ⟨h0, h1⟩ := fmod_bounds_neg a hneg
    constructor
    · rw [le_div_iff_of_neg hq]
      have : a ≤ a.fdiv b * b := by nlinarith
      exact_mod_cast this
    · rw [div_lt_iff_of_neg hq]
      have : (a.fdiv b + 1) * b < a := by nlinarith
      exact_mod_cast this
  · have hq : (0 : ℚ) < b := by exact_mod_cast hpos
    obtain ⟨h0, h1⟩ := fmod_bounds_pos a hpos
    constructor
    · rw [le_div_iff₀ hq]
      have : a.fdiv b * b ≤ a := by nlinarith
      exact_mod_cast this
    · rw [div_lt_iff₀ hq]
      have : a < (a.fdiv b + 1) * b := by nlinarith
      exact_mod_cast this

/-- remainder zero iff the quotient is exact -/
theorem pmod_eq_zero_iff (a b : Int) (hb : b ≠ 0) : pmod a b = 0 ↔ ((pdiv a b : ℤ) : ℚ) = (a : ℚ) / (b : ℚ) := by
  unfold pmod pdiv
  have hdef := Int.mul_fdiv_add_fmod a b
  have hq : (b : ℚ) ≠ 0 := by exact_mod_cast hb
  constructor
  · intro h
    rw [h] at hdef
    field_simp
    have : a.fdiv b * b = a := by linarith [mul_comm b (a.fdiv b)]
    exact_mod_cast this
  · intro h
    field_simp at h
    have h' : a.fdiv b * b = a := by exact_mod_cast h
    linarith [mul_comm b (a.fdiv b)]

end Droop
