import DroopProofs.MeekFirst
import DroopProofs.PrfMon

/-! # meek-prf: the first distribution is the first-preference count; the log is append-only -/
namespace Droop

theorem foldl_prfRankStep_stop {α : Type} (A : Arith α) (mult : α) (rank : List Nat) (a : St α × α × α × Bool)
    (h : a.2.2.2 = true) : rank.foldl (prfRankStep A mult) a = a := by
  induction rank with
  | nil => rfl
  | cons c cs ih =>
    simp only [List.foldl_cons]
    have : prfRankStep A mult a c = a := by unfold prfRankStep; rw [if_pos h]
    rw [this]; exact ih

theorem fixed_mul_up_exact (p : Nat) : (fixedArith p).mul .up (pow10 p) (pow10 p) = pow10 p := by
  have hS := pow10_pos p
  have hS0 : pow10 p ≠ 0 := ne_of_gt hS
  show divmodRound .up (pow10 p * pow10 p) (pow10 p) = _
  unfold divmodRound
  have h0 : (pow10 p == 0) = false := by simpa using hS0
  have hm : pmod (pow10 p * pow10 p) (pow10 p) = 0 := by
    unfold pmod
    simp [Int.mul_emod_left]
  simp [h0, hm, pdiv_mul_cancel _ _ hS]

/-- a ballot whose first choice keeps everything hands it its whole value -/
theorem prfBallotStep_eq_fcStep (p : Nat) (s : St Int) (b : Ballot Int) (c1 : Nat) (rest : List Nat)
    (hr : b.rank = c1 :: rest) (hi : b.idx = 0) (hw : b.w = pow10 p) (hk : kfOf s c1 = some (pow10 p)) :
    prfBallotStep (fixedArith p) s b = fcStep (fixedArith p) s b := by
  have hS := pow10_pos p
  have hS0 : pow10 p ≠ 0 := ne_of_gt hS
  have hA := fixed_lawful p
  unfold prfBallotStep
  rw [hr, List.foldl_cons]
  have hstep : prfRankStep (fixedArith p) ((fixedArith p).ofInt b.mult) (s, (fixedArith p).one, (fixedArith p).ofInt b.mult, false) c1
      = (s.addVote (fixedArith p) c1 (pow10 p * (b.mult : Int)), 0, 0, true) := by
    unfold prfRankStep
    simp only [Bool.false_eq_true, if_false, hk]
    have hz : (fixedArith p).isZero (pow10 p) = false := by
      show (pow10 p == 0) = false
      simpa using hS0
    simp only [hz, Bool.false_eq_true, if_false]
    have hone : (fixedArith p).one = pow10 p := rfl
    rw [hone, fixed_mul_up_exact]
    have hmv : (fixedArith p).mulV (pow10 p) ((fixedArith p).ofInt b.mult) = pow10 p * (b.mult : Int) := hA.mulV_ofInt _ _
    rw [hmv]
    have hsub1 : (fixedArith p).sub (pow10 p) (pow10 p) = 0 := by show pow10 p - pow10 p = 0; ring
    have hof : (fixedArith p).ofInt (b.mult : Int) = (b.mult : Int) * pow10 p := rfl
    have hsub2 : (fixedArith p).sub ((fixedArith p).ofInt b.mult) (pow10 p * (b.mult : Int)) = 0 := by
      rw [hof]; show (b.mult : Int) * pow10 p - pow10 p * (b.mult : Int) = 0; ring
    have hle : (fixedArith p).le 0 (fixedArith p).zero = true := by simp [Arith.le, fixedArith, intCmp]
    rw [hsub1, hsub2, hle]
  rw [hstep, foldl_prfRankStep_stop (fixedArith p) _ rest _ rfl]
  unfold fcStep
  have htop : b.top = some c1 := by unfold Ballot.top; rw [hr, hi]; rfl
  rw [htop]
  simp only
  have hb : bvote (fixedArith p) b = pow10 p * (b.mult : Int) := by
    unfold bvote; rw [hw]; exact hA.mulV_ofInt _ _
  rw [hb]
  show ({ s.addVote (fixedArith p) c1 (pow10 p * (b.mult : Int)) with
          residual := (fixedArith p).add (s.addVote (fixedArith p) c1 (pow10 p * (b.mult : Int))).residual 0 } : St Int) = _
  show ({ s.addVote (fixedArith p) c1 (pow10 p * (b.mult : Int)) with
          residual := (s.addVote (fixedArith p) c1 (pow10 p * (b.mult : Int))).residual + 0 } : St Int) = _
  simp only [add_zero]

theorem foldl_prf_eq_fc (p : Nat) (bs : List (Ballot Int)) (s : St Int) (h : AllKeepOne p s bs) :
    bs.foldl (prfBallotStep (fixedArith p)) s = bs.foldl (fcStep (fixedArith p)) s := by
  induction bs generalizing s with
  | nil => rfl
  | cons b bs ih =>
    simp only [List.foldl_cons]
    obtain ⟨hi, hw, hne, hk⟩ := h b (by simp)
    cases hr : b.rank with
    | nil => exact absurd hr hne
    | cons c1 rest =>
      rw [prfBallotStep_eq_fcStep p s b c1 rest hr hi hw (hk c1 (by rw [hr]; simp))]
      apply ih
      intro b' hb'
      obtain ⟨a1, a2, a3, a4⟩ := h b' (by simp [hb'])
      exact ⟨a1, a2, a3, fun cid hc => by rw [kfOf_fcStep]; exact a4 cid hc⟩

/-- the first-preference count from a state in which nobody holds anything: tallies, total -/
theorem fc_figures (p : Nat) (X : St Int) (n : Nat) (hwf : X.WF) (hz : ∀ c ∈ X.cands, c.vote = 0)
    (hb : ∀ b ∈ X.ballots, b.w = pow10 p ∧ b.top ≠ none ∧ ∀ cid ∈ b.rank, (X.cand? cid).isSome)
    (hnb : (X.ballots.map (fun b => (b.mult : Int))).sum = (n : Int)) :
    (∀ d, (X.ballots.foldl (fcStep (fixedArith p)) X).voteOf d
        = (X.ballots.map (fun b => if b.top = some d then bvote (fixedArith p) b else 0)).sum)
    ∧ (X.ballots.foldl (fcStep (fixedArith p)) X).skel = X.skel
    ∧ activeVotes (fixedArith p) (X.ballots.foldl (fcStep (fixedArith p)) X) ≤ (n : Int) * pow10 p := by
  have hA := fixed_lawful p
  have hS := pow10_pos p
  have hbv : ∀ b ∈ X.ballots, bvote (fixedArith p) b = pow10 p * (b.mult : Int) := by
    intro b hb'
    unfold bvote; rw [(hb b hb').1]; exact hA.mulV_ofInt _ _
  have hvote : ∀ d, (X.ballots.foldl (fcStep (fixedArith p)) X).voteOf d
      = (X.ballots.map (fun b => if b.top = some d then bvote (fixedArith p) b else 0)).sum := by
    intro d
    rw [foldl_fcStep_voteOf (fixedArith p) hA X d _ _ rfl (fun b hb' => (hb b hb').2.2), voteOf_zero_of_all _ hz d, zero_add]
  have hsk : (X.ballots.foldl (fcStep (fixedArith p)) X).skel = X.skel := foldl_fcStep_skel (fixedArith p) _ _
  refine ⟨hvote, hsk, ?_⟩
  have hwf2 : (X.ballots.foldl (fcStep (fixedArith p)) X).WF := WF_of_skel hsk.symm hwf
  have hnn : ∀ c ∈ (X.ballots.foldl (fcStep (fixedArith p)) X).cands, 0 ≤ c.vote := by
    intro c hc
    rw [← voteOf_of_mem hwf2 hc, hvote]
    apply List.sum_nonneg
    intro x hx
    obtain ⟨b, hb', rfl⟩ := List.mem_map.1 hx
    split
    · rw [hbv b hb']; positivity
    · exact le_refl _
  have hsum : (X.ballots.foldl (fcStep (fixedArith p)) X).sumVotes = (n : Int) * pow10 p := by
    rw [foldl_fcStep_sumVotes (fixedArith p) hA X hwf _ _ rfl (fun b hb' => ⟨(hb b hb').2.2, (hb b hb').2.1⟩)]
    have h0 : X.sumVotes = 0 := by
      unfold St.sumVotes
      apply List.sum_eq_zero
      intro x hx
      obtain ⟨c, hc, rfl⟩ := List.mem_map.1 hx
      exact hz c hc
    rw [h0, zero_add, ← hnb]
    have : X.ballots.map (bvote (fixedArith p)) = X.ballots.map (fun b => pow10 p * (b.mult : Int)) :=
      List.map_congr_left hbv
    rw [this]
    clear this hnb hvote hnn hwf2 hsk hb hbv
    induction X.ballots with
    | nil => simp
    | cons b bs ih => simp only [List.map_cons, List.sum_cons, ih]; ring
  rw [← hsum]
  unfold activeVotes
  rw [arith_sum_eq (fixedArith p) hA]
  unfold St.hopeful St.elected St.sumVotes
  rw [List.map_append, List.sum_append]
  apply sum_two_filters_le
  · intro x _ hx
    obtain ⟨h1, h2⟩ := hx
    have e1 : x.st = .hopeful := by simpa using h1
    rw [e1] at h2
    simp at h2
  · exact hnn

/-! ## the state the first meek-prf distribution starts from -/

/-- the state before the first distribution of a meek-prf count -/
def prfX (p : Nat) (s0 : St Int) : St Int :=
  { zeroActiveVotes (fixedArith p) ((prfStart (fixedArith p) s0).newRound (fixedArith p)) with residual := (fixedArith p).zero }

theorem prfS2_first (p : Nat) (s0 : St Int) :
    prfS2 (fixedArith p) ((prfStart (fixedArith p) s0).newRound (fixedArith p))
      = (prfX p s0).ballots.foldl (prfBallotStep (fixedArith p)) (prfX p s0) := rfl

theorem ksig_prfX (p : Nat) (s0 : St Int) :
    ksig (prfX p s0) = s0.cands.map (fun c => (c.cid, c.st, if c.st == CState.hopeful then some (fixedArith p).one else c.kf)) := by
  unfold prfX
  have h1 : ksig ({ zeroActiveVotes (fixedArith p) ((prfStart (fixedArith p) s0).newRound (fixedArith p)) with residual := (fixedArith p).zero } : St Int)
      = ksig ((prfStart (fixedArith p) s0).newRound (fixedArith p)) := by
    unfold zeroActiveVotes
    exact ksig_mapKeep _ _ (fun x => by split <;> exact ⟨rfl, rfl, rfl⟩)
  rw [h1]
  unfold St.newRound
  rw [ksig_logAct]
  show ksig (prfStart (fixedArith p) s0) = _
  rw [prfStart_eq, ksig_logAct, ksig_foldl_mfcStep]
  show ksig (prfS3 (fixedArith p) s0) = _
  unfold ksig prfS3
  simp only [List.map_map]
  apply List.map_congr_left
  intro c _
  simp only [Function.comp]
  show ((if (c.st == CState.hopeful) = true then ({ c with kf := some (fixedArith p).one } : Cand Int) else c).cid,
        (if (c.st == CState.hopeful) = true then ({ c with kf := some (fixedArith p).one } : Cand Int) else c).st,
        (if (c.st == CState.hopeful) = true then ({ c with kf := some (fixedArith p).one } : Cand Int) else c).kf) = _
  split <;> rfl

theorem kfOf_prfX (p : Nat) (s0 : St Int) (hwf : s0.WF) (x : Cand Int) (hx : x ∈ s0.cands) (hh : x.st = .hopeful) :
    kfOf (prfX p s0) x.cid = some (pow10 p) := by
  rw [kfOf_eq_ksig, ksig_prfX, List.find?_map]
  have hp : ((fun e : Nat × CState × Option Int => e.1 == x.cid) ∘
      fun c : Cand Int => (c.cid, c.st, if c.st == CState.hopeful then some (fixedArith p).one else c.kf)) = fun c : Cand Int => c.cid == x.cid := rfl
  rw [hp]
  have hf : s0.cands.find? (fun c => c.cid == x.cid) = some x := cand?_of_mem hwf hx
  rw [hf]
  simp [hh]
  rfl

theorem prfS3_skel (p : Nat) (s0 : St Int) : (prfS3 (fixedArith p) s0).skel = s0.skel := by
  unfold prfS3 St.skel
  simp only [List.map_map]
  apply List.map_congr_left
  intro c _
  simp only [Function.comp]
  split <;> rfl

theorem prfStart_skel (p : Nat) (s0 : St Int) : (prfStart (fixedArith p) s0).skel = s0.skel := by
  rw [prfStart_eq]
  unfold St.skel
  rw [logAct_cands]
  exact (foldl_mfcStep_skel p _ _).trans (prfS3_skel p s0)

theorem prfX_skel (p : Nat) (s0 : St Int) : (prfX p s0).skel = s0.skel := by
  unfold prfX
  rw [zeroRes_skel]
  unfold St.newRound St.skel
  rw [logAct_cands]
  exact prfStart_skel p s0

theorem prfX_ballots (p : Nat) (s0 : St Int) : (prfX p s0).ballots = s0.ballots := by
  unfold prfX
  show ((prfStart (fixedArith p) s0).newRound (fixedArith p)).ballots = _
  unfold St.newRound
  rw [logAct_ballots]
  show (prfStart (fixedArith p) s0).ballots = _
  rw [prfStart_eq, logAct_ballots]
  have : ∀ (bs : List (Ballot Int)) (t : St Int), (bs.foldl (mfcStep (fixedArith p)) t).ballots = t.ballots := by
    intro bs
    induction bs with
    | nil => intro t; rfl
    | cons b bs ih => intro t; simp only [List.foldl_cons]; rw [ih]; unfold mfcStep; split <;> rfl
  rw [this]
  rfl

/-- nobody holds anything when the first distribution starts -/
theorem prfX_votes_zero (p : Nat) (s0 : St Int) (hwf : s0.WF)
    (hfresh : ∀ c ∈ s0.cands, c.vote = 0 ∧ (c.st = .hopeful ∨ c.st = .withdrawn))
    (htops : ∀ b ∈ s0.ballots, ∃ c, b.top = some c ∧ ∃ x ∈ s0.cands, x.cid = c ∧ x.st = .hopeful) :
    ∀ c ∈ (prfX p s0).cands, c.vote = 0 := by
  have hA := fixed_lawful p
  have hY : (prfS3 (fixedArith p) s0).WF := WF_of_skel (prfS3_skel p s0).symm hwf
  have htops' : ∀ b ∈ (prfS3 (fixedArith p) s0).ballots, ∃ c, b.top = some c ∧ ∃ x ∈ (prfS3 (fixedArith p) s0).cands, x.cid = c ∧ x.st = .hopeful := by
    intro b hb
    obtain ⟨c, hc, x, hx, hxc, hxh⟩ := htops b hb
    obtain ⟨x', hx', hxs⟩ := mem_of_skel_eq (prfS3_skel p s0).symm hx
    exact ⟨c, hc, x', hx', (skel_cid hxs).trans hxc, by rw [(skel_st hxs).1]; exact hxh⟩
  have hfc := mfc_fold (fixedArith p) hA (prfS3 (fixedArith p) s0) hY (prfS3 (fixedArith p) s0).ballots htops' (prfS3 (fixedArith p) s0) []
    { skel := rfl, sum := by simp, wd := fun c hc _ => hc, frame := ⟨rfl, rfl, rfl, rfl, rfl, rfl⟩ }
  intro c' hc'
  unfold prfX zeroActiveVotes at hc'
  obtain ⟨c, hc, rfl⟩ := List.mem_map.1 hc'
  by_cases ha : (c.st == CState.hopeful || c.st == CState.elected) = true
  · rw [if_pos ha]; rfl
  · rw [if_neg ha]
    have hc1 : c ∈ (prfStart (fixedArith p) s0).cands := by
      unfold St.newRound at hc; rw [logAct_cands] at hc; exact hc
    rw [prfStart_eq, logAct_cands] at hc1
    obtain ⟨c0, hc0, hcs⟩ := mem_of_skel_eq ((foldl_mfcStep_skel p _ _).trans (prfS3_skel p s0)) hc1
    have hst : c.st = c0.st := (skel_st hcs).1.symm
    have hw : c.st = .withdrawn := by
      rcases (hfresh c0 hc0).2 with h | h
      · exfalso; rw [hst, h] at ha; simp at ha
      · rw [hst]; exact h
    have hmem := hfc.wd c (by simpa using hc1) hw
    unfold prfS3 at hmem
    obtain ⟨c00, hc00, hce⟩ := List.mem_map.1 hmem
    have hv : c.vote = c00.vote := by rw [← hce]; split <;> rfl
    rw [hv]; exact (hfresh c00 hc00).1

/-- the first meek-prf distribution, in figures -/
theorem prf_first_figures (p : Nat) (s0 : St Int) (h0 : MInit (fixedArith p) s0) (hf : FreshBallots p s0) :
    let s1 := (prfStart (fixedArith p) s0).newRound (fixedArith p)
    (∀ d, (prfS2 (fixedArith p) s1).voteOf d = (s0.ballots.map (fun b => if b.top = some d then bvote (fixedArith p) b else 0)).sum)
    ∧ (prfS2 (fixedArith p) s1).skel = s0.skel
    ∧ activeVotes (fixedArith p) (prfS2 (fixedArith p) s1) ≤ (s0.nballots : Int) * pow10 p
    ∧ (prfS2 (fixedArith p) s1).seats = s0.seats := by
  intro s1
  have hA := fixed_lawful p
  have hS := pow10_pos p
  have hXb := prfX_ballots p s0
  have hXsk := prfX_skel p s0
  have hwfX : (prfX p s0).WF := WF_of_skel hXsk.symm h0.wf
  have hkeep : AllKeepOne p (prfX p s0) (prfX p s0).ballots := by
    intro b hb
    rw [hXb] at hb
    obtain ⟨a1, a2, a3, a4⟩ := hf b hb
    refine ⟨a1, a2, a3, ?_⟩
    intro cid hc
    obtain ⟨x, hx, hxc, hxh⟩ := a4 cid hc
    rw [← hxc]
    exact kfOf_prfX p s0 h0.wf x hx hxh
  have hS2 : prfS2 (fixedArith p) s1 = (prfX p s0).ballots.foldl (fcStep (fixedArith p)) (prfX p s0) := by
    rw [prfS2_first]; exact foldl_prf_eq_fc p _ _ hkeep
  have hz := prfX_votes_zero p s0 h0.wf (fun c hc => ⟨(h0.fresh c hc).1, (h0.fresh c hc).2.2⟩) h0.tops
  have hb : ∀ b ∈ (prfX p s0).ballots, b.w = pow10 p ∧ b.top ≠ none ∧ ∀ cid ∈ b.rank, ((prfX p s0).cand? cid).isSome := by
    intro b hb
    rw [hXb] at hb
    obtain ⟨a1, a2, a3, a4⟩ := hf b hb
    refine ⟨a2, ?_, ?_⟩
    · obtain ⟨c, hc, _⟩ := h0.tops b hb
      rw [hc]; simp
    · intro cid hc
      obtain ⟨x, hx, hxc, _⟩ := a4 cid hc
      rw [cand?_isSome_of_skel hXsk, ← hxc, cand?_of_mem h0.wf hx]; rfl
  have hnb : ((prfX p s0).ballots.map (fun b => (b.mult : Int))).sum = (s0.nballots : Int) := by
    rw [hXb]
    have h1 := h0.nb
    have e : ∀ (l : List (Ballot Int)), (l.map (fun b => (fixedArith p).ofInt b.mult)).sum = (l.map (fun b => (b.mult : Int))).sum * pow10 p := by
      intro l
      induction l with
      | nil => simp
      | cons b bs ih =>
        simp only [List.map_cons, List.sum_cons, ih]
        show (b.mult : Int) * pow10 p + _ = _
        ring
    rw [e] at h1
    have h2 : (fixedArith p).ofInt (s0.nballots : Int) = (s0.nballots : Int) * pow10 p := rfl
    rw [h2] at h1
    exact Int.eq_of_mul_eq_mul_right (ne_of_gt hS) h1
  obtain ⟨f1, f2, f3⟩ := fc_figures p (prfX p s0) s0.nballots hwfX hz hb hnb
  rw [← hS2] at f1 f2 f3
  refine ⟨?_, f2.trans hXsk, f3, ?_⟩
  · intro d; rw [f1 d, hXb]
  · rw [hS2, foldl_fcStep_seats]
    show ((prfStart (fixedArith p) s0).newRound (fixedArith p)).seats = _
    unfold St.newRound
    rw [(logAct_sc p _ _ _ _).1]
    show (prfStart (fixedArith p) s0).seats = _
    rw [prfStart_eq, (logAct_sc p _ _ _ _).1, (foldl_mfcStep_sc p _ _).1]
    rfl

/-! ## the log of a meek-prf count is append-only -/

theorem ext_prfS6 (s : St Int) (p : Nat) : Ext s (prfS6 (fixedArith p) s) := by
  unfold prfS6
  refine Ext.trans ?_ (Ext.of_acts_eq rfl)
  unfold prfS5
  refine Ext.trans ?_ (ext_foldl (fun acc (c : Cand Int) => acc.elect (fixedArith p) c.cid "Elect" false)
    (fun s x => ext_elect (fixedArith p) s _ _ _) _ _)
  unfold prfS4
  exact Ext.of_acts_eq (prfS2_am (fixedArith p) s).1

theorem ext_prfIterate (p : Nat) (omega : Int) :
    ∀ (fuel : Nat) (last : Int) (s : St Int), Ext s (prfIterate (fixedArith p) omega fuel last s).1 := by
  intro fuel
  induction fuel with
  | zero => intro last s; exact ext_setCrash s _
  | succ n ih =>
    intro last s
    rw [prfIterate_succ]
    have h6 := ext_prfS6 s p
    repeat' split
    all_goals first
      | exact h6
      | exact h6.trans (ext_logMsg _ _ _ _)
      | exact h6.trans (ext_kfUpdate (fixedArith p) false _)
      | exact (h6.trans (ext_kfUpdate (fixedArith p) false _)).trans (ih _ _)

theorem ext_prfBody (p : Nat) (omega : Int) (iterFuel : Nat) (s : St Int) : Ext s (prfBody (fixedArith p) omega iterFuel s).1 := by
  unfold prfBody
  simp only
  have hr := (ext_newRound (fixedArith p) s).trans (ext_prfIterate p omega iterFuel ((fixedArith p).ofInt (s.newRound (fixedArith p)).nballots) _)
  generalize prfIterate (fixedArith p) omega iterFuel ((fixedArith p).ofInt (s.newRound (fixedArith p)).nballots) (s.newRound (fixedArith p)) = r at hr
  obtain ⟨t, st⟩ := r
  simp only at hr ⊢
  split
  · exact hr
  · split
    · exact hr
    · split
      · exact hr
      · rename_i hd hs hh
        have hbx := ext_breakTie (fixedArith p) t (t.hopeful.filter (fun c => (fixedArith p).ge ((fixedArith p).add ((fixedArith p).vMin hd.vote (hs.map (·.vote))) t.surplus) c.vote))
          "Break tie (defeat low candidate)"
        rw [hh] at hbx
        rw [hh]
        cases hb : breakTie (fixedArith p) t (List.filter (fun c => (fixedArith p).ge ((fixedArith p).add ((fixedArith p).vMin hd.vote (hs.map (·.vote))) t.surplus) c.vote) (hd :: hs))
            "Break tie (defeat low candidate)" with
        | mk s3 oc =>
          rw [hb] at hbx
          cases oc with
          | none => exact hr.trans hbx
          | some lc =>
            simp only
            exact (hr.trans hbx).trans ((ext_defeat (fixedArith p) s3 _ _).trans (Ext.of_acts_eq rfl))

theorem ext_prfFinish (p : Nat) (s6 : St Int) : Ext s6 (prfFinish (fixedArith p) s6) := by
  rw [prfFinish_eq]
  split
  · exact Ext.refl s6
  · refine Ext.trans ?_ (Ext.of_acts_eq rfl)
    apply ext_foldl
    intro t c
    unfold prfFinishStep
    split
    · exact ext_elect (fixedArith p) t _ _ _
    · exact (ext_defeat (fixedArith p) t _ _).trans (Ext.of_acts_eq rfl)

end Droop
