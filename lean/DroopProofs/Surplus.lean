import DroopProofs.Conserve
import Mathlib.Tactic.Linarith
import Mathlib.Tactic.Ring

/-! # A surplus transfer never creates votes: the value carried away is at most the surplus -/
namespace Droop
variable {α : Type} [CommRing α] [LinearOrder α] [IsStrictOrderedRing α] (A : Arith α)

theorem advanceTo_w (cont : Nat → Bool) (b : Ballot α) : (advanceTo cont b).w = b.w := by
  unfold advanceTo; split <;> rfl
theorem advanceTo_mult (cont : Nat → Bool) (b : Ballot α) : (advanceTo cont b).mult = b.mult := by
  unfold advanceTo; split <;> rfl

theorem bvote_eq (hA : LawfulArith A) (b : Ballot α) : bvote A b = b.w * ((b.mult : Int) : α) := by
  unfold bvote
  have := hA.mulV_ofInt b.w (b.mult : Int)
  simpa using this

/-- value moved by ballot `b` in the surplus transfer of `hc`, in closed form -/
theorem movedVal_surplus (hA : LawfulArith A) (s : St α) (hc : Nat) (rew : α → α) (b : Ballot α) :
    movedVal A s [hc] rew b = if b.top = some hc then rew b.w * ((b.mult : Int) : α) else 0 := by
  unfold movedVal moveBallot
  cases htop : b.top with
  | none => simp
  | some c =>
    by_cases h : c = hc
    · subst h
      simp [bvote_eq A hA, advanceTo_w, advanceTo_mult]
    · simp [h]

/-- pointwise-to-sum: if `f w * v ≤ w * sur` for every weight, then Σ f(w)·m · v ≤ sur · Σ w·m -/
theorem sum_rew_le (f : α → α) (sur v : α) (l : List (Ballot α)) (hc : Nat)
    (hf : ∀ b ∈ l, f b.w * v ≤ b.w * sur) :
    (l.map (fun b => if b.top = some hc then f b.w * ((b.mult : Int) : α) else 0)).sum * v
      ≤ sur * (l.map (fun b => if b.top = some hc then b.w * ((b.mult : Int) : α) else 0)).sum := by
  induction l with
  | nil => simp
  | cons b bs ih =>
    simp only [List.map_cons, List.sum_cons]
    have ih' := ih (fun b' hb' => hf b' (by simp [hb']))
    have hb := hf b (by simp)
    have hm : (0 : α) ≤ ((b.mult : Int) : α) := by exact_mod_cast Nat.zero_le _
    by_cases ht : b.top = some hc
    · simp only [ht, if_true]
      nlinarith [mul_le_mul_of_nonneg_right hb hm]
    · simp only [ht, if_false]
      linarith

/-- what a surplus re-weighting `rew w surplus vote` must satisfy: never negative, never more than `w * surplus / vote` -/
def RewLaw (rew : α → α → α → α) : Prop :=
  ∀ w s v : α, 0 ≤ w → 0 ≤ s → 0 < v → 0 ≤ rew w s v ∧ rew w s v * v ≤ w * s

theorem rewMulDiv_law (hA : LawfulArith A) : RewLaw (rewMulDiv A) :=
  fun w s v hw hs hv => ⟨hA.rew_nonneg w s v hw hs hv, hA.rew_le w s v hw hs hv⟩
theorem rewMuldivDown_law (hA : LawfulArith A) : RewLaw (rewMuldivDown A) :=
  fun w s v hw hs hv => ⟨hA.muldiv_nonneg w s v hw hs hv, hA.muldiv_le w s v hw hs hv⟩

/-- **the ballots of an elected candidate carry away at most the surplus** (any lawful re-weighting:
    the two-step truncation of PRF/Minneapolis/CfER and the fused multiply-divide of the Scottish rule) -/
theorem surplus_moved_le (hA : LawfulArith A) (rew : α → α → α → α) (hrew : RewLaw rew) (s : St α) (hc : Nat) (sur v : α)
    (hsur : 0 ≤ sur) (hv : 0 < v) (hw : ∀ b ∈ s.ballots, 0 ≤ b.w)
    (hI : (s.ballots.map (fun b => if b.top = some hc then b.w * ((b.mult : Int) : α) else 0)).sum = v) :
    (s.ballots.map (movedVal A s [hc] (fun w => rew w sur v))).sum ≤ sur := by
  have hrw : s.ballots.map (movedVal A s [hc] (fun w => rew w sur v))
      = s.ballots.map (fun b => if b.top = some hc then (rew b.w sur v) * ((b.mult : Int) : α) else 0) := by
    apply List.map_congr_left
    intro b _
    exact movedVal_surplus A hA s hc _ b
  rw [hrw]
  have key := sum_rew_le (fun w => rew w sur v) sur v s.ballots hc
    (fun b hb => (hrew b.w sur v (hw b hb) hsur hv).2)
  rw [hI] at key
  have : (s.ballots.map (fun b => if b.top = some hc then (rew b.w sur v) * ((b.mult : Int) : α) else 0)).sum * v
      ≤ sur * v := key
  exact le_of_mul_le_mul_right this hv

end Droop
